// Package world couples a chain with a deterministic population of actors,
// delivers their transactions block by block and feeds every observation
// (responses, events, state snapshots before/after) to the monitors.
package world

import (
	"fmt"
	"os"
	"math/rand"
	"sort"
	"strconv"
	"strings"
	"time"

	"saoverif/actors"
	"saoverif/chain"
	"saoverif/mon"

	sdk "github.com/cosmos/cosmos-sdk/types"
	abci "github.com/tendermint/tendermint/abci/types"
)

// TxEvent is everything observed about one delivered transaction.
type TxEvent struct {
	Height int64
	Index  int
	Kind   string
	Msg    sdk.Msg
	Signer *actors.Account
	// Meta is what the request factory knows by construction (who signed the
	// proposal with which key, whether that DID is owner/grantee, ...).
	Meta      map[string]interface{}
	Res       abci.ResponseDeliverTx
	OK        bool
	Pre, Post *mon.State
	Transfers []mon.Transfer
	Marks     []mon.Marker
}

// BlockEvent is everything observed about one block.
type BlockEvent struct {
	Height         int64
	Begin          abci.ResponseBeginBlock
	End            abci.ResponseEndBlock
	Prev           *mon.State // committed state of the previous height
	PostBegin      *mon.State // after BeginBlock (== Prev when begin states are not requested and BeginBlock emitted nothing)
	PreEnd         *mon.State // after the last transaction
	Post           *mon.State // after EndBlock+Commit
	BeginTransfers []mon.Transfer
	EndTransfers   []mon.Transfer
	BeginMarks     []mon.Marker
	EndMarks       []mon.Marker
	NTx            int
}

// Monitor observes a run and reports violations through World.Violate.
type Monitor interface {
	ID() string
	Tx(w *World, e *TxEvent)
	Block(w *World, e *BlockEvent)
	Done(w *World)
}

// Violation of a property, identified by a finding key.
type Violation struct {
	Prop   string      `json:"prop"`
	Key    string      `json:"key"`
	Msg    string      `json:"msg"`
	Height int64       `json:"height"`
	Detail interface{} `json:"detail,omitempty"`
}

// World is one scenario run.
type World struct {
	C    *chain.Chain
	Seed int64
	Rng  *rand.Rand
	Mons []Monitor

	Cur      *mon.State
	txIndex  int
	blk      *BlockEvent
	Viol     []Violation
	violSeen map[string]int
	Halt     *chain.Halt

	// Trace is the abstract trace: (kind, outcome class) per transaction plus block events.
	Trace    []string
	Counters map[string]int64
	Samples  []string
	StateSet map[string]struct{}
	// Cases are the signatures of the distinct non-trivial cases observed (per the check's rule).
	Cases map[string]int

	// options
	BeginStates bool // snapshot after BeginBlock too
	HashStates  bool
	KeepAlive   func(w *World) // called at the start of every block

	Accts map[string]*actors.Account
	// scenario-level registries
	Providers []*Provider
	Owners    []*Owner
	dataSeq   int
	Notes     map[string]interface{}
}

// Provider is a storage/gateway node.
type Provider struct {
	Acct    *actors.Account
	HotKeys []*actors.Account
}

// Owner is a data owner identity with its payment account.
type Owner struct {
	Id  actors.Identity
	Pay *actors.Account
}

func New(seed int64, c *chain.Chain) *World {
	return &World{C: c, Seed: seed, Rng: rand.New(rand.NewSource(seed)), violSeen: map[string]int{},
		Counters: map[string]int64{}, Cases: map[string]int{}, StateSet: map[string]struct{}{}, Accts: map[string]*actors.Account{}, Notes: map[string]interface{}{}}
}

func (w *World) AddMonitor(m ...Monitor) { w.Mons = append(w.Mons, m...) }

// Violate records a violation (deduplicated per key; the first occurrence keeps its detail).
func (w *World) Violate(prop, key, msg string, detail interface{}) {
	k := prop + "|" + key
	w.violSeen[k]++
	if w.violSeen[k] > 1 {
		return
	}
	h := w.C.Header.Height
	w.Viol = append(w.Viol, Violation{Prop: prop, Key: key, Msg: msg, Height: h, Detail: detail})
	if dk := os.Getenv("SAOMON_DUMP"); dk != "" && strings.Contains(key, dk) {
		w.DumpState(os.Stderr, prop+" "+key+": "+msg)
	}
}

// DumpState writes the current snapshot and the tail of the trace (debugging aid).
func (w *World) DumpState(out *os.File, title string) {
	fmt.Fprintf(out, "==== %s (height %d)\n", title, w.C.Header.Height)
	s := w.Cur
	if s == nil {
		return
	}
	for _, o := range s.Orders {
		fmt.Fprintf(out, "ORDER %+v\n", o)
	}
	for _, x := range s.Shards {
		fmt.Fprintf(out, "SHARD %+v\n", x)
	}
	for _, m := range s.Metas {
		fmt.Fprintf(out, "META %+v\n", m)
	}
	for k, p := range s.Pledges {
		fmt.Fprintf(out, "PLEDGE %s %+v debt=%v\n", k, p, s.Debts[k])
	}
	for k, p := range s.Workers {
		fmt.Fprintf(out, "WORKER %s %+v\n", k, p)
	}
	fmt.Fprintf(out, "EXPDATA %v\nEXPSHARDS %v\nTIMEOUTS %v\n", s.ExpData, s.ExpShards, s.Timeouts)
	n := len(w.Trace)
	if n > 80 {
		n = 80
	}
	fmt.Fprintf(out, "TRACE(tail) %v\n", w.Trace[len(w.Trace)-n:])
}

func (w *World) Count(name string, n int64) { w.Counters[name] += n }

// Case records one observed non-trivial case signature.
func (w *World) Case(format string, a ...interface{}) { w.Cases[fmt.Sprintf(format, a...)]++ }

func (w *World) Sample(format string, a ...interface{}) {
	if len(w.Samples) < 40 {
		w.Samples = append(w.Samples, fmt.Sprintf(format, a...))
	}
}

func (w *World) Acct(name string) *actors.Account {
	if a, ok := w.Accts[name]; ok {
		return a
	}
	a := actors.NewAccount(name)
	w.Accts[name] = a
	return a
}

// Halted reports whether the chain stopped (panic outside DeliverTx or hang).
func (w *World) Halted() bool { return w.Halt != nil }

var watchLast string

func (w *World) snapshot() *mon.State {
	s := mon.Snapshot(w.C)
	if wo := os.Getenv("SAOMON_WATCH"); wo != "" {
		var id uint64
		fmt.Sscan(wo, &id)
		cur := ""
		if o, ok := s.Orders[id]; ok {
			var parts []string
			for _, o2 := range s.Orders {
				if o2.DataId == o.DataId {
					parts = append(parts, fmt.Sprintf("order %03d op=%d st=%d shards=%v |", o2.Id, o2.Operation, o2.Status, o2.Shards))
				}
			}
			for _, sh := range s.Shards {
				if so, ok := s.Orders[sh.OrderId]; ok && so.DataId == o.DataId {
					parts = append(parts, fmt.Sprintf("shard %03d ord=%d st=%d cat=%d dur=%d sp=%s from=%s ri=%d |", sh.Id, sh.OrderId, sh.Status, sh.CreatedAt, sh.Duration, sh.Sp[len(sh.Sp)-4:], sh.From, len(sh.RenewInfos)))
				}
			}
			sort.Strings(parts)
			cur = strings.Join(parts, " ")
		} else {
			cur = "order absent"
		}
		if cur != watchLast {
			fmt.Fprintf(os.Stderr, "WATCH h=%d inblock=%v last=%v: %s\n", w.C.Header.Height, w.C.InBlock, lastOf(w.Trace), cur)
			watchLast = cur
		}
	}
	if w.HashStates {
		w.StateSet[s.Hash()] = struct{}{}
	}
	return s
}

// Init sends the genesis and takes the first snapshot.
func (w *World) Init(appState []byte, initialHeight int64) error {
	setClock(chain.BlockTime(initialHeight - 1))
	_, halt := w.C.InitChain(appState, initialHeight)
	if halt != nil {
		w.Halt = halt
		return halt
	}
	// the state written by InitChain becomes visible to queries after the first commit;
	// deliverState holds it meanwhile
	w.C.InBlock = true
	w.C.Header.Height = initialHeight - 1
	w.Cur = w.snapshot()
	w.C.InBlock = false
	return nil
}

var clockOffset int64

// SetClockOffset skews the virtual wall clock relative to block time (seconds).
func SetClockOffset(sec int64) { clockOffset = sec }

func setClock(t time.Time) { time.VerifSetClock(t.Unix() + clockOffset) }

// Begin opens the next block if none is open.
func (w *World) Begin() bool {
	if w.Halted() {
		return false
	}
	if w.C.InBlock {
		return true
	}
	req := w.C.NextBeginBlockRequest()
	setClock(req.Header.Time)
	res, halt := w.C.BeginBlockReq(req)
	if halt != nil {
		w.Halt = halt
		return false
	}
	b := &BlockEvent{Height: req.Header.Height, Begin: res, Prev: w.Cur}
	b.BeginTransfers, b.BeginMarks = mon.ParseEvents(res.Events, chain.Denom)
	if w.BeginStates || len(res.Events) > 0 {
		w.Cur = w.snapshot()
	}
	b.PostBegin = w.Cur
	w.blk = b
	w.txIndex = 0
	if w.KeepAlive != nil {
		w.KeepAlive(w)
	}
	return true
}

// Deliver sends one transaction in the open block (opening one if needed).
func (w *World) Deliver(kind string, signer *actors.Account, meta map[string]interface{}, msgs ...sdk.Msg) *TxEvent {
	return w.DeliverGas(kind, signer, meta, actors.DefaultGas, msgs...)
}

func (w *World) DeliverGas(kind string, signer *actors.Account, meta map[string]interface{}, gas uint64, msgs ...sdk.Msg) *TxEvent {
	if !w.Begin() {
		return &TxEvent{Kind: kind, Meta: meta}
	}
	tx := actors.SignTx(w.C, signer, gas, msgs...)
	return w.DeliverRaw(kind, signer, meta, tx, msgs...)
}

// DeliverRaw delivers already encoded transaction bytes.
func (w *World) DeliverRaw(kind string, signer *actors.Account, meta map[string]interface{}, tx []byte, msgs ...sdk.Msg) *TxEvent {
	e := &TxEvent{Kind: kind, Signer: signer, Meta: meta, Height: w.C.Header.Height, Index: w.txIndex, Pre: w.Cur}
	if len(msgs) > 0 {
		e.Msg = msgs[0]
	}
	if !w.Begin() {
		return e
	}
	res, halt := w.C.DeliverTx(tx)
	if halt != nil {
		w.Halt = halt
		return e
	}
	w.txIndex++
	w.blk.NTx++
	e.Res = res
	e.OK = res.Code == 0
	e.Transfers, e.Marks = mon.ParseEvents(res.Events, chain.Denom)
	w.Cur = w.snapshot()
	e.Post = w.Cur
	oc := "ok"
	if !e.OK {
		oc = fmt.Sprintf("%s/%d", res.Codespace, res.Code)
	}
	if !e.OK && os.Getenv("SAOMON_TXLOG") != "" {
		fmt.Fprintf(os.Stderr, "TXFAIL h=%d %s: %.400s\n", e.Height, kind, res.Log)
	}
	w.Trace = append(w.Trace, kind+":"+oc)
	w.Counters["tx"]++
	w.Counters["tx."+kind+"."+map[bool]string{true: "ok", false: "fail"}[e.OK]]++
	for _, m := range w.Mons {
		m.Tx(w, e)
	}
	return e
}

// EndBlock closes and commits the open block (opening an empty one if needed).
func (w *World) EndBlock() *BlockEvent {
	if !w.Begin() {
		return nil
	}
	b := w.blk
	b.PreEnd = w.Cur
	res, halt := w.C.EndBlock()
	if halt != nil {
		w.Halt = halt
		return nil
	}
	b.End = res
	b.EndTransfers, b.EndMarks = mon.ParseEvents(res.Events, chain.Denom)
	if _, halt := w.C.Commit(); halt != nil {
		w.Halt = halt
		return nil
	}
	w.Cur = w.snapshot()
	b.Post = w.Cur
	w.blk = nil
	w.Counters["blocks"]++
	if len(b.EndMarks) > 0 || len(b.EndTransfers) > 0 {
		kinds := map[string]bool{}
		for _, m := range b.EndMarks {
			kinds[m.Type] = true
		}
		ks := make([]string, 0, len(kinds))
		for k := range kinds {
			ks = append(ks, k)
		}
		sort.Strings(ks)
		w.Trace = append(w.Trace, "end["+strings.Join(ks, ",")+"]")
	}
	for _, m := range w.Mons {
		m.Block(w, b)
	}
	return b
}

// AdvanceTo runs empty blocks until the committed height is h.
func (w *World) AdvanceTo(h int64) {
	for !w.Halted() && w.C.Height < h {
		if w.EndBlock() == nil {
			return
		}
	}
}

// Advance runs n more blocks (closing the open one first counts as one).
func (w *World) Advance(n int64) { w.AdvanceTo(w.C.Height + n) }

// Height of the block currently being built (or the next one).
func (w *World) H() int64 {
	if w.C.InBlock {
		return w.C.Header.Height
	}
	return w.C.Height + 1
}

// Finish closes any open block and lets monitors conclude.
func (w *World) Finish() {
	if w.C.InBlock && !w.Halted() {
		w.EndBlock()
	}
	for _, m := range w.Mons {
		m.Done(w)
	}
}

// AttrU64 finds the first marker of a type and parses an attribute as uint64.
func AttrU64(marks []mon.Marker, typ, attr string) (uint64, bool) {
	for _, m := range marks {
		if m.Type == typ {
			if v, ok := m.Attrs[attr]; ok {
				u, err := strconv.ParseUint(v, 10, 64)
				if err == nil {
					return u, true
				}
			}
		}
	}
	return 0, false
}

// NewDataId returns a fresh 36-character data id.
func (w *World) NewDataId() string {
	w.dataSeq++
	return fmt.Sprintf("%08x-%04x-4000-8000-%012x", uint32(w.Seed), w.dataSeq&0xffff, w.dataSeq)
}

func lastOf(t []string) string {
	if len(t) == 0 {
		return ""
	}
	return t[len(t)-1]
}

// NewOrderID returns the id of the (storage, not renewal) order a transaction created: the new-order event when
// present, otherwise the order that exists after the transaction and did not before.
func NewOrderID(e *TxEvent) (uint64, bool) {
	if id, ok := AttrU64(e.Marks, "new-order", "order-id"); ok {
		return id, true
	}
	if e.Pre == nil || e.Post == nil {
		return 0, false
	}
	var best uint64
	found := false
	for id, o := range e.Post.Orders {
		if _, old := e.Pre.Orders[id]; !old && o.Operation != 3 && (!found || id > best) {
			best, found = id, true
		}
	}
	return best, found
}
