package world

import (
	"fmt"

	"saoverif/actors"
	"saoverif/chain"

	didtypes "github.com/SaoNetwork/sao/x/did/types"
	nodetypes "github.com/SaoNetwork/sao/x/node/types"
	saotypes "github.com/SaoNetwork/sao/x/sao/types"
	sdk "github.com/cosmos/cosmos-sdk/types"
	banktypes "github.com/cosmos/cosmos-sdk/x/bank/types"
)

const (
	Cid1 = "bafkreihdwdcefgh4dqkjv67uzcmw7ojee6xedzdetojuzjevtenxquvyku"
	Cid2 = "bafkreigh2akiscaildcqabsyg3dfr6chu3fgpregiymsck7e7aqa4s52zy"

	StatusAll = nodetypes.NODE_STATUS_ONLINE | nodetypes.NODE_STATUS_SERVE_GATEWAY | nodetypes.NODE_STATUS_SERVE_STORAGE | nodetypes.NODE_STATUS_ACCEPT_ORDER
)

// StandardGenesis funds the given accounts and bonds one validator operated by "val0".
func (w *World) StandardGenesis(params nodetypes.Params, funded []*actors.Account, coins int64, mut func(*chain.GenesisSpec)) []byte {
	val := w.Acct("val0")
	spec := chain.GenesisSpec{NodeParams: params}
	seen := map[string]bool{}
	add := func(a *actors.Account, amt int64) {
		if seen[a.Addr.String()] {
			return
		}
		seen[a.Addr.String()] = true
		spec.Accounts = append(spec.Accounts, chain.GenAccount{Addr: a.Addr, Coins: sdk.NewInt(amt)})
	}
	add(val, coins)
	for _, a := range funded {
		add(a, coins)
	}
	spec.Validators = []chain.GenValidator{{Oper: val.Addr, ConsSecret: "val0", Bond: sdk.NewInt(100_000_000)}}
	if mut != nil {
		mut(&spec)
	}
	return chain.BuildGenesis(spec)
}

// ---- node module

func (w *World) CreateNode(a *actors.Account) *TxEvent {
	return w.Deliver("node-create", a, nil, nodetypes.NewMsgCreate(a.Addr.String()))
}

func (w *World) ResetNode(a *actors.Account, status uint32, txAddrs []string, validator string) *TxEvent {
	m := &nodetypes.MsgReset{Creator: a.Addr.String(), Peer: "/ip4/127.0.0.1/tcp/5153/p2p/12D3KooWEVDNr9WMXH9qgbbDQdkfH8fKzGv8xEBUCn42nfuMMqsa", Status: status, TxAddresses: txAddrs, Validator: validator}
	return w.Deliver("node-reset", a, nil, m)
}

func (w *World) AddVstorage(a *actors.Account, size uint64) *TxEvent {
	return w.Deliver("add-vstorage", a, nil, nodetypes.NewMsgAddVstorage(a.Addr.String(), size))
}

func (w *World) RemoveVstorage(a *actors.Account, size uint64) *TxEvent {
	return w.Deliver("remove-vstorage", a, nil, nodetypes.NewMsgRemoveVstorage(a.Addr.String(), size))
}

func (w *World) Claim(a *actors.Account) *TxEvent {
	return w.Deliver("claim", a, nil, nodetypes.NewMsgClaimReward(a.Addr.String()))
}

// SetupProvider registers a storage node with capacity and full status.
func (w *World) SetupProvider(a *actors.Account, capacity uint64, hot ...*actors.Account) *Provider {
	w.CreateNode(a)
	var tx []string
	for _, h := range hot {
		tx = append(tx, h.Addr.String())
	}
	if capacity > 0 {
		w.AddVstorage(a, capacity)
	}
	w.ResetNode(a, StatusAll, tx, "")
	p := &Provider{Acct: a, HotKeys: hot}
	w.Providers = append(w.Providers, p)
	return p
}

func (w *World) Send(from *actors.Account, to sdk.AccAddress, amt int64) *TxEvent {
	return w.Deliver("bank-send", from, nil, banktypes.NewMsgSend(from.Addr, to, sdk.NewCoins(sdk.NewInt64Coin(chain.Denom, amt))))
}

// ---- did module

// SetKeyDidPayment makes pay the payment address of a did:key identity.
func (w *World) SetKeyDidPayment(id *actors.KeyDid, pay *actors.Account) *TxEvent {
	m := &didtypes.MsgUpdatePaymentAddress{Creator: pay.Addr.String(), AccountId: pay.AccountID(), Did: id.Did}
	return w.Deliver("did-payaddr", pay, nil, m)
}

// NewKeyOwner creates a did:key owner whose payment address is its own account.
func (w *World) NewKeyOwner(name string) *Owner {
	id := actors.NewKeyDid(name)
	pay := w.Acct("pay-" + name)
	w.SetKeyDidPayment(id, pay)
	o := &Owner{Id: id, Pay: pay}
	w.Owners = append(w.Owners, o)
	return o
}

// BindSid submits a binding of acct to sid (creating the sid when new).
func (w *World) BindSid(creator *actors.Account, acct *actors.Account, sid *actors.SidDid, ts uint64, meta map[string]interface{}) *TxEvent {
	proof := actors.CosmosProof(acct, sid.DID(), ts, actors.BindingMessage(sid.DID(), ts))
	m := &didtypes.MsgBinding{
		Creator:     creator.Addr.String(),
		AccountId:   acct.AccountID(),
		RootDocId:   sid.RootDoc,
		Keys:        sid.Versions[0].Keys,
		AccountAuth: &didtypes.AccountAuth{AccountDid: actors.AccountDidFor(acct, sid), AccountEncryptedSeed: "seed", SidEncryptedAccount: "acct"},
		Proof:       proof,
	}
	e := w.Deliver("did-binding", creator, meta, m)
	if e.OK {
		sid.Bound = append(sid.Bound, acct)
	}
	return e
}

// NewSidOwner creates a did:sid owner bound to (and paid by) its own account.
func (w *World) NewSidOwner(name string) *Owner {
	pay := w.Acct("pay-" + name)
	ts := uint64(chain.BlockTime(w.H()).Unix())
	sid := actors.NewSidDid(name, ts)
	w.BindSid(pay, pay, sid, ts, nil)
	o := &Owner{Id: sid, Pay: pay}
	w.Owners = append(w.Owners, o)
	return o
}

// ---- sao module

// NoAlias as StoreReq.Alias requests an unnamed model (empty alias field).
const NoAlias = "-"

// AliasOf turns a stored alias into the StoreReq form (an empty stored alias stays empty).
func AliasOf(a string) string {
	if a == "" {
		return NoAlias
	}
	return a
}

// StoreReq describes a store request; zero fields take defaults.
type StoreReq struct {
	Owner     actors.Identity // proposal owner field
	Signer    actors.Identity // who signs the JWS (default Owner)
	Gateway   *Provider       // proposal.provider
	Relayer   *actors.Account // tx signer (default gateway account)
	MsgProv   string          // msg.Provider (default gateway address)
	DataId    string
	CommitId  string
	Alias     string
	Duration  uint64
	Replica   int32
	Timeout   int32
	Size      uint64
	Operation uint32
	Sponsor   string // payment did
	Cid       string
	RO, RW    []string
	Mutate    func(p *saotypes.Proposal)            // after defaults, before signing
	Tamper    func(m *saotypes.MsgStore)            // after signing
	Meta      map[string]interface{}
}

func (w *World) BuildStore(r StoreReq) (*saotypes.MsgStore, *actors.Account) {
	if r.Signer == nil {
		r.Signer = r.Owner
	}
	if r.Relayer == nil {
		r.Relayer = r.Gateway.Acct
	}
	if r.MsgProv == "" {
		r.MsgProv = r.Gateway.Acct.Addr.String()
	}
	if r.Cid == "" {
		r.Cid = Cid1
	}
	if r.Operation == 0 {
		r.Operation = 1
	}
	if r.Alias == "" {
		r.Alias = "alias-" + r.DataId
	} else if r.Alias == NoAlias {
		r.Alias = ""
	}
	p := saotypes.Proposal{
		Owner: r.Owner.DID(), Provider: r.Gateway.Acct.Addr.String(), GroupId: "grp", Duration: r.Duration,
		Replica: r.Replica, Timeout: r.Timeout, Alias: r.Alias, DataId: r.DataId, CommitId: r.CommitId,
		Cid: r.Cid, Size_: r.Size, Operation: r.Operation, ReadonlyDids: r.RO, ReadwriteDids: r.RW, PaymentDid: r.Sponsor,
	}
	if r.Mutate != nil {
		r.Mutate(&p)
	}
	sig := actors.SignProposal(r.Signer, &p)
	m := &saotypes.MsgStore{Creator: r.Relayer.Addr.String(), Proposal: p, JwsSignature: sig, Provider: r.MsgProv}
	if r.Tamper != nil {
		r.Tamper(m)
	}
	return m, r.Relayer
}

// Store delivers a store request; returns the event and the new order id (0 when it failed).
func (w *World) Store(r StoreReq) (*TxEvent, uint64) {
	m, relayer := w.BuildStore(r)
	e := w.Deliver("store", relayer, r.Meta, m)
	id, _ := NewOrderID(e)
	if !e.OK {
		id = 0
	}
	return e, id
}

func (w *World) Complete(sp *actors.Account, signer *actors.Account, orderId uint64, size uint64) *TxEvent {
	if signer == nil {
		signer = sp
	}
	m := saotypes.NewMsgComplete(signer.Addr.String(), orderId, Cid1, size, sp.Addr.String())
	return w.Deliver("complete", signer, nil, m)
}

func (w *World) Cancel(signer *actors.Account, orderId uint64, provider string) *TxEvent {
	return w.Deliver("cancel", signer, nil, saotypes.NewMsgCancel(signer.Addr.String(), orderId, provider))
}

func (w *World) Ready(signer *actors.Account, orderId uint64, provider string) *TxEvent {
	return w.Deliver("ready", signer, nil, saotypes.NewMsgReady(signer.Addr.String(), orderId, provider))
}

func (w *World) Migrate(sp *actors.Account, data ...string) *TxEvent {
	return w.Deliver("migrate", sp, nil, saotypes.NewMsgMigrate(sp.Addr.String(), data, sp.Addr.String()))
}

func (w *World) Renew(owner actors.Identity, signer actors.Identity, relayer *actors.Account, provider string, duration uint64, timeout int32, meta map[string]interface{}, data ...string) *TxEvent {
	if signer == nil {
		signer = owner
	}
	p := saotypes.RenewProposal{Owner: owner.DID(), Duration: duration, Timeout: timeout, Data: data}
	sig := actors.SignProposal(signer, &p)
	if provider == "" {
		provider = relayer.Addr.String()
	}
	m := &saotypes.MsgRenew{Creator: relayer.Addr.String(), Proposal: p, JwsSignature: sig, Provider: provider}
	return w.Deliver("renew", relayer, meta, m)
}

func (w *World) Terminate(owner actors.Identity, signer actors.Identity, relayer *actors.Account, provider string, dataId string, meta map[string]interface{}) *TxEvent {
	if signer == nil {
		signer = owner
	}
	p := saotypes.TerminateProposal{Owner: owner.DID(), DataId: dataId}
	sig := actors.SignProposal(signer, &p)
	if provider == "" {
		provider = relayer.Addr.String()
	}
	m := &saotypes.MsgTerminate{Creator: relayer.Addr.String(), Proposal: p, JwsSignature: sig, Provider: provider}
	return w.Deliver("terminate", relayer, meta, m)
}

func (w *World) UpdatePermission(owner actors.Identity, signer actors.Identity, relayer *actors.Account, provider string, dataId string, ro, rw []string, meta map[string]interface{}) *TxEvent {
	if signer == nil {
		signer = owner
	}
	p := saotypes.PermissionProposal{Owner: owner.DID(), DataId: dataId, ReadonlyDids: ro, ReadwriteDids: rw}
	sig := actors.SignProposal(signer, &p)
	if provider == "" {
		provider = relayer.Addr.String()
	}
	m := &saotypes.MsgUpdataPermission{Creator: relayer.Addr.String(), Proposal: p, JwsSignature: sig, Provider: provider}
	return w.Deliver("permission", relayer, meta, m)
}

// ShardsOf lists the shards of an order in the current state (by id order as listed).
func (w *World) ShardsOf(orderId uint64) []uint64 {
	o, ok := w.Cur.Orders[orderId]
	if !ok {
		return nil
	}
	return o.Shards
}

// ProviderByAddr finds a registered provider.
func (w *World) ProviderByAddr(addr string) *Provider {
	for _, p := range w.Providers {
		if p.Acct.Addr.String() == addr {
			return p
		}
	}
	return nil
}

// CompleteAll lets every provider with a waiting/migrating shard of the order complete it.
func (w *World) CompleteAll(orderId uint64) (n int) {
	o, ok := w.Cur.Orders[orderId]
	if !ok {
		return 0
	}
	for _, sid := range o.Shards {
		sh, ok := w.Cur.Shards[sid]
		if !ok || (sh.Status != 0 && sh.Status != 4) { // waiting / migrating
			continue
		}
		p := w.ProviderByAddr(sh.Sp)
		if p == nil {
			continue
		}
		if e := w.Complete(p.Acct, nil, orderId, sh.Size_); e.OK {
			n++
		}
	}
	return
}

func (w *World) String() string {
	return fmt.Sprintf("world(seed=%d h=%d)", w.Seed, w.C.Height)
}
