// Package replica replays a recorded consensus request stream against a fresh
// application instance (in child processes) under perturbations that must not
// matter: wall-clock offset, process restarts after committed blocks, a
// process kill in the middle of a block, and non-consensus calls (CheckTx,
// Simulate, Query) served in between.  The parent compares every response
// with the leader's.
package replica

import (
	"bytes"
	"encoding/binary"
	"encoding/json"
	"fmt"
	"io"
	"math/rand"
	"os"
	"os/exec"
	"path/filepath"
	"sync"
	"time"

	"saoverif/chain"

	abci "github.com/tendermint/tendermint/abci/types"
	dbm "github.com/tendermint/tm-db"
)

// LoadRequests reads a framed request log.
func LoadRequests(path string) ([]*abci.Request, error) {
	f, err := os.Open(path)
	if err != nil {
		return nil, err
	}
	defer f.Close()
	var out []*abci.Request
	for {
		b, err := chain.ReadFramed(f)
		if err == io.EOF || err == io.ErrUnexpectedEOF {
			break
		}
		if err != nil {
			return nil, err
		}
		r := &abci.Request{}
		if err := r.Unmarshal(b); err != nil {
			return nil, err
		}
		out = append(out, r)
	}
	return out, nil
}

// LoadResponses reads a framed response log (leader format: one per request, in order).
func LoadResponses(path string) ([]*abci.Response, error) {
	f, err := os.Open(path)
	if err != nil {
		return nil, err
	}
	defer f.Close()
	var out []*abci.Response
	for {
		b, err := chain.ReadFramed(f)
		if err == io.EOF || err == io.ErrUnexpectedEOF {
			break
		}
		if err != nil {
			return nil, err
		}
		r := &abci.Response{}
		if err := r.Unmarshal(b); err != nil {
			return nil, err
		}
		out = append(out, r)
	}
	return out, nil
}

// ChildOpts configures one follower process run.
type ChildOpts struct {
	Req         string `json:"req"`
	Out         string `json:"out"` // indexed response records are appended here
	DB          string `json:"db"`  // goleveldb dir ("" = memdb, no restart possible)
	Start       int    `json:"start"`
	StopCommits int    `json:"stop_commits"` // exit after this many commits (0 = run to the end)
	CrashAt     int    `json:"crash_at"`     // exit abruptly right after processing this request index (-1 = never)
	ClockOffset int64  `json:"clock_offset"`
	NoiseSeed   int64  `json:"noise_seed"` // 0 = no non-consensus calls
	Concurrent  bool   `json:"concurrent"` // issue Simulate/Query from other goroutines while consensus calls run (race build)
	Status      string `json:"status"`     // status file: {"next": idx, "done": bool}
}

type childStatus struct {
	Next    int    `json:"next"`
	Done    bool   `json:"done"`
	Halt    string `json:"halt,omitempty"`
	Noise   int    `json:"noise_calls"`
	Residue string `json:"residue,omitempty"`
}

var queryPaths = []string{
	"/saonetwork.sao.node.Query/Pool", "/saonetwork.sao.node.Query/NodeAll", "/saonetwork.sao.node.Query/PledgeAll", "/saonetwork.sao.node.Query/Params",
	"/saonetwork.sao.order.Query/OrderAll", "/saonetwork.sao.order.Query/ShardAll", "/saonetwork.sao.model.Query/MetadataAll", "/saonetwork.sao.model.Query/ModelAll",
	"/saonetwork.sao.model.Query/ExpiredDataAll", "/saonetwork.sao.sao.Query/TimeoutOrderAll", "/saonetwork.sao.sao.Query/ExpiredShardAll",
	"/saonetwork.sao.did.Query/DidAll", "/saonetwork.sao.did.Query/SidDocumentAll", "/saonetwork.sao.did.Query/SidDocumentVersionAll", "/saonetwork.sao.did.Query/KidAll", "/saonetwork.sao.node.Query/PledgeDebtAll", "/saonetwork.sao.did.Query/PaymentAddressAll", "/saonetwork.sao.did.Query/AccountListAll", "/saonetwork.sao.market.Query/WorkerAll",
	"/cosmos.bank.v1beta1.Query/TotalSupply", "/cosmos.staking.v1beta1.Query/Validators",
}

func writeIndexed(w io.Writer, idx int, r *abci.Response) {
	b, err := r.Marshal()
	if err != nil {
		panic(err)
	}
	var hdr [8]byte
	binary.BigEndian.PutUint32(hdr[:4], uint32(idx))
	binary.BigEndian.PutUint32(hdr[4:], uint32(len(b)))
	w.Write(hdr[:])
	w.Write(b)
}

// ResidueProbe, when set (by a build with hooks), reports process-global residue at block boundaries.
var ResidueProbe func() string

// RunChild is the follower process body.
func RunChild(o ChildOpts) {
	reqs, err := LoadRequests(o.Req)
	if err != nil {
		fmt.Println("load:", err)
		os.Exit(2)
	}
	var db dbm.DB
	if o.DB != "" {
		db, err = dbm.NewGoLevelDB("application", o.DB)
		if err != nil {
			fmt.Println("db:", err)
			os.Exit(2)
		}
	}
	c := chain.New(chain.Options{DB: db, LoadLast: o.Start > 0})
	out, err := os.OpenFile(o.Out, os.O_CREATE|os.O_APPEND|os.O_WRONLY, 0o644)
	if err != nil {
		fmt.Println(err)
		os.Exit(2)
	}
	st := childStatus{Next: o.Start}
	finish := func(code int) {
		out.Close()
		if db != nil {
			db.Close()
		}
		b, _ := json.Marshal(st)
		os.WriteFile(o.Status, b, 0o644)
		os.Exit(code)
	}
	var rng *rand.Rand
	if o.NoiseSeed != 0 {
		rng = rand.New(rand.NewSource(o.NoiseSeed))
	}
	// transactions of the stream, for CheckTx / Simulate noise
	var txs [][]byte
	for _, r := range reqs {
		if d := r.GetDeliverTx(); d != nil {
			txs = append(txs, d.Tx)
		}
	}
	txPos := 0 // number of stream transactions delivered so far
	pickTx := func() []byte {
		// mostly the transactions about to be delivered (their sequence numbers are valid now, so a
		// simulation really executes their messages), sometimes any transaction of the stream
		if rng.Intn(4) > 0 && txPos < len(txs) {
			k := txPos + rng.Intn(3)
			if k >= len(txs) {
				k = len(txs) - 1
			}
			return txs[k]
		}
		return txs[rng.Intn(len(txs))]
	}
	noise := func(n int) {
		if rng == nil {
			return
		}
		for i := 0; i < n; i++ {
			st.Noise++
			switch rng.Intn(4) {
			case 0:
				if len(txs) > 0 {
					c.CheckTx(pickTx(), rng.Intn(3) == 0)
				}
			case 1:
				if len(txs) > 0 {
					c.Simulate(pickTx())
				}
			case 2:
				c.Query(queryPaths[rng.Intn(len(queryPaths))], nil)
			case 3:
				c.CheckTx([]byte("garbage"), false)
			}
		}
	}
	stop := make(chan struct{})
	var wg sync.WaitGroup
	if o.Concurrent && o.NoiseSeed != 0 {
		for g := 0; g < 3; g++ {
			wg.Add(1)
			go func(g int) {
				defer wg.Done()
				r2 := rand.New(rand.NewSource(o.NoiseSeed + int64(g) + 1))
				for {
					select {
					case <-stop:
						return
					default:
					}
					if c.Height < 1 {
						time.Sleep(time.Millisecond)
						continue
					}
					if r2.Intn(2) == 0 && len(txs) > 0 {
						c.Simulate(txs[r2.Intn(len(txs))])
					} else {
						c.Query(queryPaths[r2.Intn(len(queryPaths))], nil)
					}
				}
			}(g)
		}
	}
	for i := 0; i < o.Start && i < len(reqs); i++ {
		if reqs[i].GetDeliverTx() != nil {
			txPos++
		}
	}
	commits := 0
	for i := o.Start; i < len(reqs); i++ {
		r := reqs[i]
		var resp *abci.Response
		var halt *chain.Halt
		switch v := r.Value.(type) {
		case *abci.Request_InitChain:
			time.VerifSetClock(v.InitChain.Time.Unix() + o.ClockOffset)
			var x abci.ResponseInitChain
			x, halt = c.InitChainReq(*v.InitChain)
			resp = abci.ToResponseInitChain(x)
		case *abci.Request_BeginBlock:
			time.VerifSetClock(v.BeginBlock.Header.Time.Unix() + o.ClockOffset)
			noise(2)
			var x abci.ResponseBeginBlock
			x, halt = c.BeginBlockReq(*v.BeginBlock)
			resp = abci.ToResponseBeginBlock(x)
		case *abci.Request_DeliverTx:
			if rng != nil && rng.Intn(2) == 0 {
				noise(1 + rng.Intn(2))
			}
			txPos++
			var x abci.ResponseDeliverTx
			x, halt = c.DeliverTx(v.DeliverTx.Tx)
			resp = abci.ToResponseDeliverTx(x)
		case *abci.Request_EndBlock:
			noise(1)
			var x abci.ResponseEndBlock
			x, halt = c.EndBlock()
			resp = abci.ToResponseEndBlock(x)
		case *abci.Request_Commit:
			var x abci.ResponseCommit
			x, halt = c.Commit()
			resp = abci.ToResponseCommit(x)
			commits++
			noise(2)
		default:
			continue
		}
		if halt != nil {
			st.Halt = halt.Error()
			st.Next = i
			close(stop)
			finish(0)
		}
		writeIndexed(out, i, resp)
		st.Next = i + 1
		if o.CrashAt >= 0 && i == o.CrashAt {
			// abrupt death in the middle of a block: nothing is flushed or closed on purpose
			b, _ := json.Marshal(st)
			os.WriteFile(o.Status, b, 0o644)
			os.Exit(0)
		}
		if _, isCommit := r.Value.(*abci.Request_Commit); isCommit {
			if ResidueProbe != nil {
				if s := ResidueProbe(); s != "" {
					st.Residue = s
				}
			}
			if o.StopCommits > 0 && commits >= o.StopCommits && i+1 < len(reqs) {
				close(stop)
				wg.Wait()
				finish(0)
			}
		}
	}
	st.Done = true
	close(stop)
	wg.Wait()
	finish(0)
}

// Plan describes one follower.
type Plan struct {
	Name         string
	ClockOffset  int64
	RestartEvery int   // restart the process after every k commits (0 = never)
	CrashAt      []int // request indices (DeliverTx) after which the process is killed mid-block
	NoiseSeed    int64
	Concurrent   bool
	Race         bool // use the race-detector binary
}

// FollowerResult is what the supervisor learned.
type FollowerResult struct {
	Plan       Plan
	Responses  map[int]*abci.Response
	Restarts   int
	Crashes    int
	NoiseCalls int
	Halt       string
	Residue    string
	Err        string
	RaceLog    string
}

// RunFollower supervises the child processes of one follower until the stream is consumed.
func RunFollower(exe, raceExe, reqPath, workDir string, plan Plan, reqs []*abci.Request) *FollowerResult {
	res := &FollowerResult{Plan: plan, Responses: map[int]*abci.Response{}}
	dir := filepath.Join(workDir, "f-"+plan.Name)
	os.MkdirAll(dir, 0o755)
	defer os.RemoveAll(dir)
	db := ""
	if plan.RestartEvery > 0 || len(plan.CrashAt) > 0 {
		db = filepath.Join(dir, "db")
	}
	start := 0
	crashes := append([]int{}, plan.CrashAt...)
	for round := 0; round < 100000; round++ {
		o := ChildOpts{Req: reqPath, Out: filepath.Join(dir, fmt.Sprintf("resp.%d", round)), DB: db, Start: start, StopCommits: plan.RestartEvery,
			CrashAt: -1, ClockOffset: plan.ClockOffset, NoiseSeed: plan.NoiseSeed, Concurrent: plan.Concurrent, Status: filepath.Join(dir, "status.json")}
		if len(crashes) > 0 {
			o.CrashAt = crashes[0]
		}
		ob, _ := json.Marshal(o)
		bin := exe
		if plan.Race {
			bin = raceExe
		}
		cmd := exec.Command("timeout", "-s", "QUIT", "3000", bin, "replica-child", string(ob))
		var stderr bytes.Buffer
		cmd.Stdout = &stderr
		cmd.Stderr = &stderr
		if plan.Race {
			res.RaceLog = filepath.Join(workDir, "race-"+plan.Name)
			cmd.Env = append(os.Environ(), "GORACE=halt_on_error=0 log_path="+res.RaceLog)
		}
		os.Remove(o.Status)
		err := cmd.Run()
		sb, rerr := os.ReadFile(o.Status)
		if rerr != nil {
			res.Err = fmt.Sprintf("follower %s round %d produced no status (err=%v): %s", plan.Name, round, err, tail(stderr.String(), 2000))
			return res
		}
		var st childStatus
		json.Unmarshal(sb, &st)
		res.NoiseCalls += st.Noise
		if st.Residue != "" {
			res.Residue = st.Residue
		}
		readIndexed(o.Out, res.Responses)
		if st.Halt != "" {
			res.Halt = st.Halt
			return res
		}
		if st.Done {
			return res
		}
		if o.CrashAt >= 0 && st.Next == o.CrashAt+1 {
			// killed mid-block: Tendermint replays the block from its BeginBlock
			res.Crashes++
			crashes = crashes[1:]
			bs := o.CrashAt
			for bs > 0 {
				if _, ok := reqs[bs].Value.(*abci.Request_BeginBlock); ok {
					break
				}
				bs--
			}
			for i := bs; i <= o.CrashAt; i++ {
				delete(res.Responses, i)
			}
			start = bs
			continue
		}
		res.Restarts++
		start = st.Next
	}
	res.Err = "too many rounds"
	return res
}

func tail(s string, n int) string {
	if len(s) > n {
		return s[len(s)-n:]
	}
	return s
}

func readIndexed(path string, into map[int]*abci.Response) {
	f, err := os.Open(path)
	if err != nil {
		return
	}
	defer f.Close()
	for {
		var hdr [8]byte
		if _, err := io.ReadFull(f, hdr[:]); err != nil {
			return
		}
		idx := int(binary.BigEndian.Uint32(hdr[:4]))
		b := make([]byte, binary.BigEndian.Uint32(hdr[4:]))
		if _, err := io.ReadFull(f, b); err != nil {
			return
		}
		r := &abci.Response{}
		if r.Unmarshal(b) == nil {
			into[idx] = r
		}
	}
}

// Divergence is the first difference between leader and follower.
type Divergence struct {
	Index  int    `json:"index"`
	Call   string `json:"call"`
	Height int64  `json:"height"`
	Field  string `json:"field"`
	Leader string `json:"leader"`
	Got    string `json:"follower"`
}

func normalize(r *abci.Response) []byte {
	c := *r
	switch v := c.Value.(type) {
	case *abci.Response_DeliverTx:
		d := *v.DeliverTx
		d.Log, d.Info = "", ""
		c.Value = &abci.Response_DeliverTx{DeliverTx: &d}
	}
	b, _ := c.Marshal()
	return b
}

// Compare returns the first divergence (nil if none) and the number of responses compared.
func Compare(reqs []*abci.Request, leader []*abci.Response, follower map[int]*abci.Response) (*Divergence, int) {
	h := int64(0)
	n := 0
	for i, r := range reqs {
		if bb := r.GetBeginBlock(); bb != nil {
			h = bb.Header.Height
		}
		if i >= len(leader) {
			break
		}
		f, ok := follower[i]
		if !ok {
			return &Divergence{Index: i, Call: callName(r), Height: h, Field: "missing", Leader: "response", Got: "none"}, n
		}
		n++
		if !bytes.Equal(normalize(leader[i]), normalize(f)) {
			d := &Divergence{Index: i, Call: callName(r), Height: h, Field: "response"}
			d.Leader, d.Got = describe(leader[i]), describe(f)
			return d, n
		}
	}
	return nil, n
}

func callName(r *abci.Request) string {
	switch r.Value.(type) {
	case *abci.Request_InitChain:
		return "InitChain"
	case *abci.Request_BeginBlock:
		return "BeginBlock"
	case *abci.Request_DeliverTx:
		return "DeliverTx"
	case *abci.Request_EndBlock:
		return "EndBlock"
	case *abci.Request_Commit:
		return "Commit"
	}
	return "?"
}

func describe(r *abci.Response) string {
	switch v := r.Value.(type) {
	case *abci.Response_DeliverTx:
		return fmt.Sprintf("code=%d/%s gas=%d/%d data=%x events=%d log=%.160s", v.DeliverTx.Code, v.DeliverTx.Codespace, v.DeliverTx.GasUsed, v.DeliverTx.GasWanted, v.DeliverTx.Data, len(v.DeliverTx.Events), v.DeliverTx.Log)
	case *abci.Response_Commit:
		return fmt.Sprintf("apphash=%x", v.Commit.Data)
	case *abci.Response_EndBlock:
		return fmt.Sprintf("events=%d valupdates=%d", len(v.EndBlock.Events), len(v.EndBlock.ValidatorUpdates))
	case *abci.Response_BeginBlock:
		return fmt.Sprintf("events=%d", len(v.BeginBlock.Events))
	}
	return fmt.Sprintf("%T", r.Value)
}
