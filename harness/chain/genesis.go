package chain

import (
	"encoding/json"
	"time"

	"github.com/SaoNetwork/sao/app"
	nodetypes "github.com/SaoNetwork/sao/x/node/types"
	codectypes "github.com/cosmos/cosmos-sdk/codec/types"
	"github.com/cosmos/cosmos-sdk/crypto/keys/ed25519"
	sdk "github.com/cosmos/cosmos-sdk/types"
	authtypes "github.com/cosmos/cosmos-sdk/x/auth/types"
	banktypes "github.com/cosmos/cosmos-sdk/x/bank/types"
	crisistypes "github.com/cosmos/cosmos-sdk/x/crisis/types"
	govtypesv1 "github.com/cosmos/cosmos-sdk/x/gov/types/v1"
	minttypes "github.com/cosmos/cosmos-sdk/x/mint/types"
	stakingtypes "github.com/cosmos/cosmos-sdk/x/staking/types"
)

// GenAccount is a funded genesis account.
type GenAccount struct {
	Addr  sdk.AccAddress
	Coins sdk.Int
}

// GenValidator is a bonded genesis validator operated by (and self-delegated from) Oper.
type GenValidator struct {
	Oper       sdk.AccAddress
	ConsSecret string
	Bond       sdk.Int
	// extra delegations at genesis (delegator -> amount)
	Delegations []GenDelegation
}

type GenDelegation struct {
	Delegator sdk.AccAddress
	Amount    sdk.Int
}

// GenesisSpec describes a coherent single-denomination genesis.
type GenesisSpec struct {
	Accounts      []GenAccount
	Validators    []GenValidator
	NodeParams    nodetypes.Params
	BuiltinDid    string
	UnbondingTime time.Duration
	// pre-registered nodes and their pledges (pool totals and the node escrow balance are derived)
	Nodes   []nodetypes.Node
	Pledges []nodetypes.Pledge
	MaxValidators uint32
	// cumulative block reward already minted (selects the halving age the chain starts in)
	PoolTotalReward sdk.Int
	// Mutate allows arbitrary edits of module genesis (raw JSON per module).
	Mutate func(gs app.GenesisState)
}

// DefaultNodeParams is a parameter set with one denomination.
func DefaultNodeParams() nodetypes.Params {
	p := nodetypes.DefaultParams()
	p.BlockReward = sdk.NewInt64Coin(Denom, 0)
	p.Baseline = sdk.NewInt64Coin(Denom, 1_000_000)
	p.AnnualPercentageYield = "0.2"
	p.VstorageThreshold = 10_000_000
	p.OfflineTriggerHeight = 1800
	p.MaxPenalty = 99999
	return p
}

func ConsKey(secret string) *ed25519.PrivKey {
	return ed25519.GenPrivKeyFromSecret([]byte("cons/" + secret))
}

// BuildGenesis renders the app state JSON.
func BuildGenesis(spec GenesisSpec) []byte {
	e := Encoding()
	cdc := e.Marshaler
	gs := app.NewDefaultGenesisState(cdc)

	// --- auth + bank
	var accs []authtypes.GenesisAccount
	var bals []banktypes.Balance
	total := sdk.NewCoins()
	for _, a := range spec.Accounts {
		accs = append(accs, authtypes.NewBaseAccount(a.Addr, nil, 0, 0))
		c := sdk.NewCoins(sdk.NewCoin(Denom, a.Coins))
		bals = append(bals, banktypes.Balance{Address: a.Addr.String(), Coins: c})
		total = total.Add(c...)
	}

	// --- staking
	var vals []stakingtypes.Validator
	var dels []stakingtypes.Delegation
	bonded := sdk.ZeroInt()
	for _, v := range spec.Validators {
		pk := ConsKey(v.ConsSecret).PubKey()
		any, err := codectypes.NewAnyWithValue(pk)
		if err != nil {
			panic(err)
		}
		tokens := v.Bond
		for _, d := range v.Delegations {
			tokens = tokens.Add(d.Amount)
		}
		val := stakingtypes.Validator{
			OperatorAddress:   sdk.ValAddress(v.Oper).String(),
			ConsensusPubkey:   any,
			Jailed:            false,
			Status:            stakingtypes.Unbonded, // bonded by staking InitGenesis, as after a gentx (runs the bonding hooks)
			Tokens:            tokens,
			DelegatorShares:   sdk.NewDecFromInt(tokens),
			Description:       stakingtypes.Description{Moniker: v.ConsSecret},
			UnbondingHeight:   0,
			UnbondingTime:     time.Unix(0, 0).UTC(),
			Commission:        stakingtypes.NewCommission(sdk.ZeroDec(), sdk.ZeroDec(), sdk.ZeroDec()),
			MinSelfDelegation: sdk.OneInt(),
		}
		vals = append(vals, val)
		dels = append(dels, stakingtypes.NewDelegation(v.Oper, sdk.ValAddress(v.Oper), sdk.NewDecFromInt(v.Bond)))
		for _, d := range v.Delegations {
			dels = append(dels, stakingtypes.NewDelegation(d.Delegator, sdk.ValAddress(v.Oper), sdk.NewDecFromInt(d.Amount)))
		}
		bonded = bonded.Add(tokens)
	}
	if bonded.IsPositive() {
		bc := sdk.NewCoins(sdk.NewCoin(Denom, bonded))
		bals = append(bals, banktypes.Balance{Address: authtypes.NewModuleAddress(stakingtypes.NotBondedPoolName).String(), Coins: bc})
		total = total.Add(bc...)
	}
	sp := stakingtypes.DefaultParams()
	sp.BondDenom = Denom
	if spec.UnbondingTime > 0 {
		sp.UnbondingTime = spec.UnbondingTime
	} else {
		sp.UnbondingTime = 300 * time.Second
	}
	if spec.MaxValidators > 0 {
		sp.MaxValidators = spec.MaxValidators
	} else {
		sp.MaxValidators = 5
	}
	gs[stakingtypes.ModuleName] = cdc.MustMarshalJSON(stakingtypes.NewGenesisState(sp, vals, dels))
	gs[authtypes.ModuleName] = cdc.MustMarshalJSON(authtypes.NewGenesisState(authtypes.DefaultParams(), accs))
	gs[banktypes.ModuleName] = cdc.MustMarshalJSON(banktypes.NewGenesisState(banktypes.DefaultGenesisState().Params, bals, total, nil))

	// --- mint: no SDK inflation (as in the repository's config.yml)
	mg := minttypes.DefaultGenesisState()
	mg.Params.MintDenom = Denom
	mg.Params.InflationMax = sdk.ZeroDec()
	mg.Params.InflationMin = sdk.ZeroDec()
	mg.Params.InflationRateChange = sdk.ZeroDec()
	mg.Params.BlocksPerYear = 16000000
	mg.Minter.Inflation = sdk.ZeroDec()
	gs[minttypes.ModuleName] = cdc.MustMarshalJSON(mg)

	cg := crisistypes.DefaultGenesisState()
	cg.ConstantFee = sdk.NewInt64Coin(Denom, 1000)
	gs[crisistypes.ModuleName] = cdc.MustMarshalJSON(cg)

	gg := govtypesv1.DefaultGenesisState()
	gg.DepositParams.MinDeposit = sdk.NewCoins(sdk.NewInt64Coin(Denom, 1000))
	gs["gov"] = cdc.MustMarshalJSON(gg)

	// --- node: one denomination everywhere
	ng := nodetypes.DefaultGenesis()
	ng.Params = spec.NodeParams
	ng.Pool.TotalPledged = sdk.NewInt64Coin(Denom, 0)
	ng.Pool.TotalReward = sdk.NewInt64Coin(Denom, 0)
	if !spec.PoolTotalReward.IsNil() && spec.PoolTotalReward.IsPositive() {
		// a chain that has been minting for a long time (as an exported genesis would show it)
		ng.Pool.TotalReward = sdk.NewCoin(Denom, spec.PoolTotalReward)
	}
	ng.Pool.AccRewardPerByte = sdk.NewInt64DecCoin(Denom, 0)
	ng.Pool.AccPledgePerByte = sdk.NewInt64DecCoin(Denom, 0)
	ng.Pool.RewardPerBlock = sdk.NewInt64DecCoin(Denom, 0)
	ng.Pool.NextRewardPerBlock = sdk.NewInt64DecCoin(Denom, 0)
	if len(spec.Nodes) > 0 {
		ng.NodeList = spec.Nodes
		ng.PledgeList = spec.Pledges
		escrow := sdk.ZeroInt()
		for _, p := range spec.Pledges {
			ng.Pool.TotalStorage += p.TotalStorage
			ng.Pool.TotalPledged = ng.Pool.TotalPledged.Add(p.TotalStoragePledged)
			escrow = escrow.Add(p.TotalStoragePledged.Amount).Add(p.TotalShardPledged.Amount)
		}
		if escrow.IsPositive() {
			ec := sdk.NewCoins(sdk.NewCoin(Denom, escrow))
			bals = append(bals, banktypes.Balance{Address: authtypes.NewModuleAddress(nodetypes.ModuleName).String(), Coins: ec})
			total = total.Add(ec...)
			gs[banktypes.ModuleName] = cdc.MustMarshalJSON(banktypes.NewGenesisState(banktypes.DefaultGenesisState().Params, bals, total, nil))
		}
	}
	gs[nodetypes.ModuleName] = cdc.MustMarshalJSON(ng)

	if spec.BuiltinDid != "" {
		var raw map[string]json.RawMessage
		if err := json.Unmarshal(gs["did"], &raw); err != nil {
			panic(err)
		}
		raw["params"] = json.RawMessage(`{"builtin_did":"` + spec.BuiltinDid + `"}`)
		b, _ := json.Marshal(raw)
		gs["did"] = b
	}

	if spec.Mutate != nil {
		spec.Mutate(gs)
	}
	out, err := json.Marshal(gs)
	if err != nil {
		panic(err)
	}
	return out
}
