// Package chain drives the real SAO application (app.New with every module,
// ante handler, bank, staking, IAVL stores) through the ABCI boundary exactly
// the way Tendermint does: InitChain, then per height BeginBlock, DeliverTx*,
// EndBlock, Commit.  Every request can be appended to a stream log before it
// is sent and every response after, so that a crash or hang leaves the
// offending input on disk and replicas can be fed the identical stream.
package chain

import (
	"encoding/binary"
	"fmt"
	"io"
	"os"
	"runtime/debug"
	"sort"
	"sync/atomic"
	"time"

	"github.com/SaoNetwork/sao/app"
	"github.com/cosmos/cosmos-sdk/baseapp"
	"github.com/cosmos/cosmos-sdk/simapp"
	sdk "github.com/cosmos/cosmos-sdk/types"
	"github.com/ignite/cli/ignite/pkg/cosmoscmd"
	abci "github.com/tendermint/tendermint/abci/types"
	"github.com/tendermint/tendermint/libs/log"
	tmproto "github.com/tendermint/tendermint/proto/tendermint/types"
	dbm "github.com/tendermint/tm-db"
)

const (
	ChainID   = "saoverif"
	Denom     = "sao"
	EpochUnix = int64(1_700_000_000) // logical epoch: block time = epoch + 5 s * height
)

var enc *cosmoscmd.EncodingConfig

// Encoding returns the (process-wide) encoding configuration and makes sure the
// bech32 prefixes are those of the SAO chain.
func Encoding() cosmoscmd.EncodingConfig {
	if enc == nil {
		cfg := sdk.GetConfig()
		cfg.SetBech32PrefixForAccount(app.AccountAddressPrefix, app.AccountAddressPrefix+"pub")
		cfg.SetBech32PrefixForValidator(app.AccountAddressPrefix+"valoper", app.AccountAddressPrefix+"valoperpub")
		cfg.SetBech32PrefixForConsensusNode(app.AccountAddressPrefix+"valcons", app.AccountAddressPrefix+"valconspub")
		e := cosmoscmd.MakeEncodingConfig(app.ModuleBasics)
		enc = &e
	}
	return *enc
}

// Halt describes a failure of an ABCI call that would stop a real node.
type Halt struct {
	Call   string `json:"call"`
	Height int64  `json:"height"`
	Kind   string `json:"kind"` // "panic" | "hang"
	Msg    string `json:"msg"`
	Stack  string `json:"stack,omitempty"`
}

func (h *Halt) Error() string {
	return fmt.Sprintf("%s in %s at height %d: %s", h.Kind, h.Call, h.Height, h.Msg)
}

// Chain is one application instance plus the driver state Tendermint would keep.
type Chain struct {
	App     *app.App
	DB      dbm.DB
	Height  int64  // last committed height
	AppHash []byte // last commit hash (first block: ResponseInitChain.AppHash)

	// validator set as reported by InitChain / EndBlock (cons address -> power)
	Vals     map[string]int64
	proposer []byte
	// double-sign evidence handed to the next BeginBlock
	PendingEvidence []abci.Evidence

	InBlock bool
	Header  tmproto.Header

	reqLog  io.Writer // stream log (requests), may be nil
	respLog io.Writer // response log, may be nil

	// statistics
	NCalls     int64
	MaxCallCPU time.Duration
	TxPanics   int64 // panics recovered by baseapp inside DeliverTx (compliant)

	// current call for the watchdog
	curCall   atomic.Value // string
	callStart atomic.Int64 // process CPU ns at call start, 0 = idle
	Halted    *Halt
}

// Options for constructing a chain.
type Options struct {
	DB       dbm.DB
	ReqLog   io.Writer
	RespLog  io.Writer
	LoadLast bool // resume from DB (restart)
	Logger   log.Logger
	// BaseAppOpts are passed to baseapp (pruning, min gas prices, ...).
	BaseAppOpts []func(*baseapp.BaseApp)
}

// New builds the real application.
func New(o Options) *Chain {
	e := Encoding()
	if o.DB == nil {
		o.DB = dbm.NewMemDB()
	}
	lg := o.Logger
	if lg == nil {
		lg = log.NewNopLogger()
	}
	a := app.New(lg, o.DB, nil, true, map[int64]bool{}, "", 0, e,
		simapp.EmptyAppOptions{}, o.BaseAppOpts...)
	c := &Chain{App: a.(*app.App), DB: o.DB, reqLog: o.ReqLog, respLog: o.RespLog, Vals: map[string]int64{}}
	if o.LoadLast {
		c.Height = c.App.LastBlockHeight()
		c.AppHash = c.App.LastCommitID().Hash
	}
	return c
}

// BlockTime is the logical time of a height.
func BlockTime(h int64) time.Time {
	return time.Unix(EpochUnix+5*h, 0).UTC()
}

func writeFramed(w io.Writer, b []byte) {
	if w == nil {
		return
	}
	var l [4]byte
	binary.BigEndian.PutUint32(l[:], uint32(len(b)))
	w.Write(l[:])
	w.Write(b)
	if f, ok := w.(*os.File); ok {
		_ = f // unbuffered file: already on its way to the page cache
	}
}

// ReadFramed reads one length-prefixed record; io.EOF at the end.
func ReadFramed(r io.Reader) ([]byte, error) {
	var l [4]byte
	if _, err := io.ReadFull(r, l[:]); err != nil {
		return nil, err
	}
	b := make([]byte, binary.BigEndian.Uint32(l[:]))
	if _, err := io.ReadFull(r, b); err != nil {
		return nil, err
	}
	return b, nil
}

func (c *Chain) logReq(r *abci.Request) {
	if c.reqLog == nil {
		return
	}
	b, err := r.Marshal()
	if err != nil {
		panic(err)
	}
	writeFramed(c.reqLog, b)
}

func (c *Chain) logResp(r *abci.Response) {
	if c.respLog == nil {
		return
	}
	b, err := r.Marshal()
	if err != nil {
		panic(err)
	}
	writeFramed(c.respLog, b)
}

// guard runs one ABCI call under recover() and CPU accounting.
func (c *Chain) guard(name string, f func()) (halt *Halt) {
	c.curCall.Store(name)
	start := ProcessCPU()
	c.callStart.Store(int64(start) + 1)
	defer func() {
		c.callStart.Store(0)
		d := ProcessCPU() - start
		if d > c.MaxCallCPU {
			c.MaxCallCPU = d
		}
		c.NCalls++
		if r := recover(); r != nil {
			halt = &Halt{Call: name, Height: c.Header.Height, Kind: "panic", Msg: fmt.Sprint(r), Stack: string(debug.Stack())}
			c.Halted = halt
		}
	}()
	f()
	return nil
}

// SetLogs redirects the stream logs (nil disables).
func (c *Chain) SetLogs(req, resp io.Writer) { c.reqLog, c.respLog = req, resp }

// Guard runs an arbitrary call into the application under the same panic / CPU accounting as ABCI calls.
func (c *Chain) Guard(name string, f func()) *Halt { return c.guard(name, f) }

// CurrentCall reports the call in flight and the CPU time it has burnt so far.
func (c *Chain) CurrentCall() (string, time.Duration) {
	s := c.callStart.Load()
	if s == 0 {
		return "", 0
	}
	name, _ := c.curCall.Load().(string)
	return name, ProcessCPU() - time.Duration(s-1)
}

// InitChain sends the genesis.
func (c *Chain) InitChain(appState []byte, initialHeight int64) (abci.ResponseInitChain, *Halt) {
	if initialHeight <= 0 {
		initialHeight = 1
	}
	req := abci.RequestInitChain{
		Time:            BlockTime(initialHeight - 1),
		ChainId:         ChainID,
		ConsensusParams: DefaultConsensusParams(),
		AppStateBytes:   appState,
		InitialHeight:   initialHeight,
	}
	return c.InitChainReq(req)
}

func (c *Chain) InitChainReq(req abci.RequestInitChain) (res abci.ResponseInitChain, halt *Halt) {
	c.logReq(abci.ToRequestInitChain(req))
	c.Header = tmproto.Header{Height: req.InitialHeight - 1}
	halt = c.guard("InitChain", func() { res = c.App.InitChain(req) })
	if halt != nil {
		return
	}
	c.logResp(abci.ToResponseInitChain(res))
	c.Height = req.InitialHeight - 1
	c.AppHash = res.AppHash
	c.applyValUpdates(res.Validators)
	return
}

func DefaultConsensusParams() *abci.ConsensusParams {
	return &abci.ConsensusParams{
		Block:     &abci.BlockParams{MaxBytes: 22020096, MaxGas: -1},
		Evidence:  &tmproto.EvidenceParams{MaxAgeNumBlocks: 100000, MaxAgeDuration: 172800 * time.Second, MaxBytes: 1048576},
		Validator: &tmproto.ValidatorParams{PubKeyTypes: []string{"ed25519"}},
	}
}

func (c *Chain) applyValUpdates(ups []abci.ValidatorUpdate) {
	for _, u := range ups {
		pk, err := cryptoFromProto(u.PubKey)
		if err != nil {
			panic(err)
		}
		addr := string(pk.Address())
		if u.Power == 0 {
			delete(c.Vals, addr)
		} else {
			c.Vals[addr] = u.Power
		}
	}
	// proposer: lowest address among current validators (deterministic)
	keys := make([]string, 0, len(c.Vals))
	for k := range c.Vals {
		keys = append(keys, k)
	}
	sort.Strings(keys)
	if len(keys) > 0 {
		c.proposer = []byte(keys[0])
	}
}

// NextBeginBlockRequest builds what Tendermint would send for the next height.
func (c *Chain) NextBeginBlockRequest() abci.RequestBeginBlock {
	h := c.Height + 1
	keys := make([]string, 0, len(c.Vals))
	for k := range c.Vals {
		keys = append(keys, k)
	}
	sort.Strings(keys)
	votes := make([]abci.VoteInfo, 0, len(keys))
	for _, k := range keys {
		votes = append(votes, abci.VoteInfo{Validator: abci.Validator{Address: []byte(k), Power: c.Vals[k]}, SignedLastBlock: true})
	}
	ev := c.PendingEvidence
	c.PendingEvidence = nil
	return abci.RequestBeginBlock{
		Header: tmproto.Header{
			ChainID:         ChainID,
			Height:          h,
			Time:            BlockTime(h),
			AppHash:         c.AppHash,
			ProposerAddress: c.proposer,
		},
		LastCommitInfo:      abci.LastCommitInfo{Votes: votes},
		ByzantineValidators: ev,
	}
}

// Equivocate queues double-sign evidence against a validator (by consensus address) for the next block: the
// evidence module slashes, jails and tombstones it, leaving tokens < delegator shares.
func (c *Chain) Equivocate(consAddr []byte, power int64) {
	h := c.Height
	c.PendingEvidence = append(c.PendingEvidence, abci.Evidence{Type: abci.EvidenceType_DUPLICATE_VOTE,
		Validator: abci.Validator{Address: consAddr, Power: power}, Height: h, Time: BlockTime(h), TotalVotingPower: power})
}

func (c *Chain) BeginBlock() (abci.ResponseBeginBlock, *Halt) {
	return c.BeginBlockReq(c.NextBeginBlockRequest())
}

func (c *Chain) BeginBlockReq(req abci.RequestBeginBlock) (res abci.ResponseBeginBlock, halt *Halt) {
	c.logReq(abci.ToRequestBeginBlock(req))
	c.Header = req.Header
	halt = c.guard("BeginBlock", func() { res = c.App.BeginBlock(req) })
	if halt != nil {
		return
	}
	c.InBlock = true
	c.logResp(abci.ToResponseBeginBlock(res))
	return
}

func (c *Chain) DeliverTx(tx []byte) (res abci.ResponseDeliverTx, halt *Halt) {
	req := abci.RequestDeliverTx{Tx: tx}
	c.logReq(abci.ToRequestDeliverTx(req))
	halt = c.guard("DeliverTx", func() { res = c.App.DeliverTx(req) })
	if halt != nil {
		return
	}
	if res.Codespace == "undefined" && res.Code == 111222 { // sdkerrors.ErrPanic
		c.TxPanics++
	}
	c.logResp(abci.ToResponseDeliverTx(res))
	return
}

func (c *Chain) EndBlock() (res abci.ResponseEndBlock, halt *Halt) {
	req := abci.RequestEndBlock{Height: c.Header.Height}
	c.logReq(abci.ToRequestEndBlock(req))
	halt = c.guard("EndBlock", func() { res = c.App.EndBlock(req) })
	if halt != nil {
		return
	}
	c.logResp(abci.ToResponseEndBlock(res))
	c.applyValUpdates(res.ValidatorUpdates)
	return
}

func (c *Chain) Commit() (res abci.ResponseCommit, halt *Halt) {
	c.logReq(abci.ToRequestCommit())
	halt = c.guard("Commit", func() { res = c.App.Commit() })
	if halt != nil {
		return
	}
	c.logResp(abci.ToResponseCommit(res))
	c.Height = c.Header.Height
	c.AppHash = res.Data
	c.InBlock = false
	return
}

// CheckTx / Simulate / Query are the non-consensus entry points (never logged
// to the consensus stream).
func (c *Chain) CheckTx(tx []byte, recheck bool) abci.ResponseCheckTx {
	t := abci.CheckTxType_New
	if recheck {
		t = abci.CheckTxType_Recheck
	}
	return c.App.CheckTx(abci.RequestCheckTx{Tx: tx, Type: t})
}

func (c *Chain) Simulate(tx []byte) (gasUsed uint64, err error) {
	defer func() {
		if r := recover(); r != nil {
			err = fmt.Errorf("simulate panic: %v", r)
		}
	}()
	gi, _, e := c.App.Simulate(tx)
	return gi.GasUsed, e
}

func (c *Chain) Query(path string, data []byte) abci.ResponseQuery {
	return c.App.Query(abci.RequestQuery{Path: path, Data: data})
}

// DeliverCtx returns a context over the in-block (uncommitted) state when a
// block is open, else over the committed state.  Reads only.
func (c *Chain) Ctx() sdk.Context {
	if c.InBlock {
		return c.App.BaseApp.NewContext(false, c.Header)
	}
	h := c.Header
	return c.App.BaseApp.NewContext(true, h)
}

// ProcessCPU returns the CPU time consumed by this process so far.
func ProcessCPU() time.Duration {
	return processCPU()
}
