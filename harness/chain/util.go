package chain

import (
	"syscall"
	"time"

	"github.com/tendermint/tendermint/crypto"
	cryptoenc "github.com/tendermint/tendermint/crypto/encoding"
	pc "github.com/tendermint/tendermint/proto/tendermint/crypto"
)

func cryptoFromProto(k pc.PublicKey) (crypto.PubKey, error) { return cryptoenc.PubKeyFromProto(k) }

func processCPU() time.Duration {
	var ru syscall.Rusage
	if err := syscall.Getrusage(syscall.RUSAGE_SELF, &ru); err != nil {
		return 0
	}
	return time.Duration(ru.Utime.Nano() + ru.Stime.Nano())
}
