package props

import (
	"fmt"
	"strings"

	"saoverif/mon"
	"saoverif/world"

	saotypes "github.com/SaoNetwork/sao/x/sao/types"
)

const (
	statusEligible  = uint32(1 | 4 | 8) // online | serving storage | accepting orders
	reputationFloor = float32(8000)
)

// C15: replica placement.  Every shard that appears in a transaction or in an
// end block is a selection; the oracle evaluates the eligibility predicate on
// the state immediately before.
type C15 struct{ selections int64 }

func (m *C15) ID() string          { return "C15" }
func (m *C15) Done(w *world.World) { w.Count("c15.selections", m.selections) }

func (m *C15) examine(w *world.World, where, kind string, pre, post *mon.State, requested map[uint64]int) {
	// new shards grouped by the order that lists them
	newByOrder := map[uint64][]uint64{}
	for sid := range post.Shards {
		if _, old := pre.Shards[sid]; old {
			continue
		}
		// the order listing it (shard.OrderId may name an older order for migrations: use the listing)
		for oid, o := range post.Orders {
			if containsU64(o.Shards, sid) {
				if _, seen := pre.Orders[oid]; seen || true {
					newByOrder[oid] = append(newByOrder[oid], sid)
				}
				break
			}
		}
	}
	for oid, sids := range newByOrder {
		o := post.Orders[oid]
		_, existed := pre.Orders[oid]
		// providers already involved with this order (any status), or carried over by a force-push
		prior := map[string]bool{}
		if existed {
			for _, sid := range pre.Orders[oid].Shards {
				if sh, ok := pre.Shards[sid]; ok {
					prior[sh.Sp] = true
				}
			}
		}
		carried := map[string]bool{}
		if !existed && o.Operation == 2 {
			if md, ok := pre.Metas[o.DataId]; ok {
				if cur, ok := pre.Orders[md.OrderId]; ok {
					for _, sid := range cur.Shards {
						if sh, ok := pre.Shards[sid]; ok {
							carried[sh.Sp] = true
						}
					}
				}
			}
		}
		seen := map[string]bool{}
		fresh := 0
		for _, sid := range sids {
			sh := post.Shards[sid]
			m.selections++
			if seen[sh.Sp] {
				w.Violate("C15", "duplicate-provider-in-selection:"+kind, fmt.Sprintf("%s: order %d got two new shards on provider %s", where, oid, shortAddr(sh.Sp)), nil)
			}
			seen[sh.Sp] = true
			if prior[sh.Sp] {
				w.Violate("C15", "provider-already-involved-with-order:"+kind, fmt.Sprintf("%s: order %d got a new shard %d on provider %s which already holds or timed out on a shard of that order", where, oid, sid, shortAddr(sh.Sp)), nil)
			}
			if carried[sh.Sp] {
				continue // holder of the version being replaced, kept by a force-push: not newly chosen
			}
			fresh++
			n, okN := pre.Nodes[sh.Sp]
			pl, okP := pre.Pledges[sh.Sp]
			switch {
			case !okN:
				w.Violate("C15", "selected-non-node:"+kind, fmt.Sprintf("%s: order %d shard %d assigned to %s which is not a registered node", where, oid, sid, shortAddr(sh.Sp)), nil)
			case n.Status&statusEligible != statusEligible:
				w.Violate("C15", "selected-ineligible-status:"+kind, fmt.Sprintf("%s: order %d shard %d assigned to %s whose status is %d (needs online, storage, accepting)", where, oid, sid, shortAddr(sh.Sp), n.Status), nil)
			case n.Reputation < reputationFloor:
				w.Violate("C15", "selected-low-reputation:"+kind, fmt.Sprintf("%s: order %d shard %d assigned to %s with reputation %v", where, oid, sid, shortAddr(sh.Sp), n.Reputation), nil)
			case !okP || pl.TotalStorage-pl.UsedStorage < int64(sh.Size_):
				w.Violate("C15", "selected-without-free-capacity:"+kind, fmt.Sprintf("%s: order %d shard %d (%d bytes) assigned to %s with %d free", where, oid, sid, sh.Size_, shortAddr(sh.Sp), pl.TotalStorage-pl.UsedStorage), nil)
			}
			role := uint32(0)
			if okN {
				role = n.Role
			}
			w.Case("c15:%s:role=%d,pop=%d,n=%d", kind, role, bucket(len(pre.Nodes)), len(sids))
		}
		if req, ok := requested[oid]; ok {
			if len(sids) > req {
				w.Violate("C15", "more-providers-than-requested:"+kind, fmt.Sprintf("%s: order %d got %d new shards but %d were requested", where, oid, len(sids), req), nil)
			}
		}
	}
}

func (m *C15) Tx(w *world.World, e *world.TxEvent) {
	if !e.OK || e.Pre == nil || e.Post == nil {
		return
	}
	req := map[uint64]int{}
	switch msg := e.Msg.(type) {
	case *saotypes.MsgStore:
		if id, ok := world.NewOrderID(e); ok {
			req[id] = int(msg.Proposal.Replica)
			if o, ok := e.Post.Orders[id]; ok && o.Status == OrderDataReady && len(o.Shards) != int(msg.Proposal.Replica) {
				w.Violate("C15", "under-replicated-order-accepted:store", fmt.Sprintf("store accepted with %d replicas requested but %d shards assigned", msg.Proposal.Replica, len(o.Shards)), nil)
			}
		}
	case *saotypes.MsgReady:
		if o, ok := e.Post.Orders[msg.OrderId]; ok {
			req[msg.OrderId] = int(o.Replica)
			if len(o.Shards) != int(o.Replica) {
				w.Violate("C15", "under-replicated-order-accepted:ready", fmt.Sprintf("ready accepted with %d replicas requested but %d shards assigned", o.Replica, len(o.Shards)), nil)
			}
		}
	case *saotypes.MsgMigrate:
		for oid := range e.Post.Orders {
			req[oid] = 1
		}
	default:
		// no other transaction selects providers
		if len(e.Post.Shards) > len(e.Pre.Shards) && e.Kind != "store" {
			for sid := range e.Post.Shards {
				if _, ok := e.Pre.Shards[sid]; !ok {
					w.Violate("C15", "shard-created-outside-selection:"+e.Kind, fmt.Sprintf("tx %s created shard %d", e.Kind, sid), nil)
				}
			}
		}
		return
	}
	m.examine(w, "tx "+e.Kind, e.Kind, e.Pre, e.Post, req)
}

func (m *C15) Block(w *world.World, e *world.BlockEvent) {
	// timeouts: at most as many replacements as waiting shards
	req := map[uint64]int{}
	for oid, o := range e.PreEnd.Orders {
		n := 0
		for _, sid := range o.Shards {
			if sh, ok := e.PreEnd.Shards[sid]; ok && sh.Status == ShardWaiting {
				n++
			}
		}
		req[oid] = n
	}
	m.examine(w, "end block (timeout re-assignment)", "timeout", e.PreEnd, e.Post, req)
}

// ---------------------------------------------------------------- C16

// C16: identifier uniqueness and version linearity.
type C16 struct {
	maxOrder, maxShard uint64
	anyOrder, anyShard bool
	seenOrders         map[uint64]string
	updates            int64
	// per accepted update order: the base it named; and which orders have committed their version already
	baseOf    map[uint64]string
	committed map[uint64]bool
}

func NewC16() *C16 {
	return &C16{seenOrders: map[uint64]string{}, baseOf: map[uint64]string{}, committed: map[uint64]bool{}}
}

func (m *C16) ID() string          { return "C16" }
func (m *C16) Done(w *world.World) { w.Count("c16.updates_accepted", m.updates) }

func commitOfVersion(v string) string {
	if i := strings.IndexByte(v, 26); i >= 0 {
		return v[:i]
	}
	return v
}

func (m *C16) ids(w *world.World, where string, pre, post *mon.State) {
	for id, o := range post.Orders {
		if _, old := pre.Orders[id]; old {
			continue
		}
		sig := fmt.Sprintf("%s/%d/%d", o.DataId, o.Operation, o.CreatedAt)
		if prev, seen := m.seenOrders[id]; seen && prev != sig {
			w.Violate("C16", "order-id-reused", fmt.Sprintf("%s: order id %d was used for %s and now for %s", where, id, prev, sig), nil)
		}
		if m.anyOrder && id <= m.maxOrder && m.seenOrders[id] == "" {
			w.Violate("C16", "order-id-not-increasing", fmt.Sprintf("%s: new order got id %d although id %d was already issued", where, id, m.maxOrder), nil)
		}
		m.seenOrders[id] = sig
	}
	for id := range post.Orders {
		if id > m.maxOrder {
			m.maxOrder = id
		}
		m.anyOrder = true
	}
	for id := range post.Shards {
		if _, old := pre.Shards[id]; old {
			continue
		}
		if m.anyShard && id <= m.maxShard {
			w.Violate("C16", "shard-id-not-increasing", fmt.Sprintf("%s: new shard got id %d although id %d was already issued", where, id, m.maxShard), nil)
		}
	}
	for id := range post.Shards {
		if id > m.maxShard {
			m.maxShard = id
		}
		m.anyShard = true
	}
	if post.OrderCount < pre.OrderCount || post.ShardCount < pre.ShardCount {
		w.Violate("C16", "id-counter-decreased", fmt.Sprintf("%s: order/shard counters went from %d/%d to %d/%d", where, pre.OrderCount, pre.ShardCount, post.OrderCount, post.ShardCount), nil)
	}
}

func (m *C16) history(w *world.World, where string, kind string, pre, post *mon.State, forcePushData string) {
	for d, a := range pre.Metas {
		b, ok := post.Metas[d]
		if !ok {
			continue
		}
		if a.CreatedAt != b.CreatedAt {
			continue // deleted and re-created within one step
		}
		pa, pb := a.Commits, b.Commits
		same := len(pa) == len(pb)
		if same {
			for i := range pa {
				if pa[i] != pb[i] {
					same = false
				}
			}
		}
		if same {
			continue
		}
		appendOne := len(pb) == len(pa)+1
		if appendOne {
			for i := range pa {
				if pa[i] != pb[i] {
					appendOne = false
				}
			}
		}
		replaceLast := len(pb) == len(pa) && len(pa) > 0
		if replaceLast {
			for i := 0; i < len(pa)-1; i++ {
				if pa[i] != pb[i] {
					replaceLast = false
				}
			}
		}
		switch {
		case appendOne && kind == "complete":
			w.Case("c16:history:append:len=%d", minInt(len(pb), 4))
		case replaceLast && kind == "complete" && forcePushData == d:
			w.Case("c16:history:replace-last:len=%d", minInt(len(pb), 4))
		default:
			w.Violate("C16", "history-rewritten:"+kind, fmt.Sprintf("%s: committed history of %s changed from %d to %d entries other than by appending one version or force-replacing the last", where, d, len(pa), len(pb)), map[string]interface{}{"before": strs(pa), "after": strs(pb)})
		}
	}
}

func strs(v []string) []string {
	out := make([]string, len(v))
	for i, s := range v {
		out[i] = strings.ReplaceAll(s, string([]byte{26}), "@")
	}
	return out
}

func (m *C16) inflight(w *world.World, where string, s *mon.State) {
	cnt := map[string]int{}
	for _, o := range s.Orders {
		if o.Operation == 3 || o.Status == OrderCompleted {
			continue
		}
		cnt[o.DataId]++
	}
	for d, n := range cnt {
		if n > 1 {
			w.Violate("C16", "two-updates-in-flight", fmt.Sprintf("%s: data model %s has %d orders in flight", where, d, n), nil)
		}
	}
}

func (m *C16) Tx(w *world.World, e *world.TxEvent) {
	if e.Pre == nil || e.Post == nil {
		return
	}
	where := "tx " + e.Kind
	m.ids(w, where, e.Pre, e.Post)
	fp := ""
	if msg, ok := e.Msg.(*saotypes.MsgComplete); ok && e.OK {
		if o, ok := e.Pre.Orders[msg.OrderId]; ok && o.Operation == 2 {
			fp = o.DataId
		}
	}
	m.history(w, where, e.Kind, e.Pre, e.Post, fp)
	m.inflight(w, where, e.Post)
	if msg, ok := e.Msg.(*saotypes.MsgComplete); ok && e.OK {
		// a completion that commits a version: the order commits once, onto the version it named as its base
		if o, ok := e.Pre.Orders[msg.OrderId]; ok {
			pre, had := e.Pre.Metas[o.DataId]
			post, has := e.Post.Metas[o.DataId]
			if had && has && pre.CreatedAt == post.CreatedAt && len(post.Commits) == len(pre.Commits)+1 {
				if m.committed[o.Id] {
					w.Violate("C16", "order-committed-twice", fmt.Sprintf("order %d of %s had already committed its version; a later completion appended %q to the history again", o.Id, o.DataId, strs(post.Commits[len(post.Commits)-1:])[0]), map[string]interface{}{"before": strs(pre.Commits), "after": strs(post.Commits)})
				}
				if base, known := m.baseOf[o.Id]; known && o.Operation == 1 && len(pre.Commits) > 0 {
					if last := commitOfVersion(pre.Commits[len(pre.Commits)-1]); last != base {
						w.Violate("C16", "version-committed-onto-other-base", fmt.Sprintf("order %d of %s named base %q but its version was appended after %q", o.Id, o.DataId, base, last), map[string]interface{}{"before": strs(pre.Commits), "after": strs(post.Commits)})
					}
				}
				m.committed[o.Id] = true
			}
		}
	}
	if msg, ok := e.Msg.(*saotypes.MsgStore); ok && e.OK {
		p := msg.Proposal
		if md, existed := e.Pre.Metas[p.DataId]; existed {
			m.updates++
			base := p.CommitId
			if i := strings.Index(p.CommitId, "|"); i >= 0 {
				base = p.CommitId[:i]
			}
			if id, ok := world.NewOrderID(e); ok {
				m.baseOf[id] = base
			}
			latest := ""
			if len(md.Commits) > 0 {
				latest = commitOfVersion(md.Commits[len(md.Commits)-1])
			}
			shape := "exact"
			switch {
			case base == "":
				shape = "empty"
			case base != latest && strings.Contains(latest, base):
				shape = "substring"
			case base != latest:
				shape = "other"
			}
			w.Case("c16:update-accepted:base=%s,op=%d,status=%d", shape, p.Operation, md.Status)
			if len(md.Commits) == 0 || md.Status != 4 {
				w.Violate("C16", "update-accepted-while-another-in-flight", fmt.Sprintf("update of %s accepted while the model has status %d and %d committed versions", p.DataId, md.Status, len(md.Commits)), nil)
			} else if base != latest {
				w.Violate("C16", "update-accepted-on-stale-base:"+shape, fmt.Sprintf("update of %s accepted naming base %q but the latest committed version is %q", p.DataId, base, latest), nil)
			}
		}
	}
}

func (m *C16) Block(w *world.World, e *world.BlockEvent) {
	m.ids(w, "end block", e.PreEnd, e.Post)
	m.history(w, "end block", "endblock", e.PreEnd, e.Post, "")
	m.inflight(w, "block boundary", e.Post)
}
