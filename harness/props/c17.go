package props

import (
	"encoding/hex"
	"fmt"
	"sort"
	"strings"

	"saoverif/actors"
	"saoverif/chain"
	"saoverif/check"
	"saoverif/world"

	didtypes "github.com/SaoNetwork/sao/x/did/types"
	ethcrypto "github.com/ethereum/go-ethereum/crypto"
)

// DidState is the exported state of the did registry.
type DidState struct {
	DidOf       map[string]string   // account id -> did
	AccountList map[string][]string // did -> account dids
	AccountId   map[string]string   // account did -> account id
	AccountAuth map[string]bool
	PayAddr     map[string]string // did -> address
	Kid         map[string]string // address -> key did
	Versions    map[string][]string
	Docs        map[string]bool
}

func snapshotDid(c *chain.Chain) *DidState {
	ctx := c.Ctx()
	k := c.App.DidKeeper
	s := &DidState{DidOf: map[string]string{}, AccountList: map[string][]string{}, AccountId: map[string]string{}, AccountAuth: map[string]bool{},
		PayAddr: map[string]string{}, Kid: map[string]string{}, Versions: map[string][]string{}, Docs: map[string]bool{}}
	for _, d := range k.GetAllDid(ctx) {
		s.DidOf[d.AccountId] = d.Did
	}
	for _, l := range k.GetAllAccountList(ctx) {
		s.AccountList[l.Did] = l.AccountDids
	}
	for _, a := range k.GetAllAccountId(ctx) {
		s.AccountId[a.AccountDid] = a.AccountId
	}
	for _, a := range k.GetAllAccountAuth(ctx) {
		s.AccountAuth[a.AccountDid] = true
	}
	for _, p := range k.GetAllPaymentAddress(ctx) {
		s.PayAddr[p.Did] = p.Address
	}
	for _, x := range k.GetAllKid(ctx) {
		s.Kid[x.Address] = x.Kid
	}
	for _, v := range k.GetAllSidDocumentVersion(ctx) {
		s.Versions[v.DocId] = v.VersionList
	}
	for _, d := range k.GetAllSidDocument(ctx) {
		s.Docs[d.VersionId] = true
	}
	return s
}

// C17: DID registry integrity.  Invariants on the exported registry after
// every transaction plus a transition oracle for bindings and updates whose
// proof validity is known by construction.
type C17 struct {
	prev   *DidState
	checks int64
	keyPay map[string]string // key did -> payment address once set
}

func NewC17() *C17 { return &C17{keyPay: map[string]string{}} }

func (m *C17) ID() string                                { return "C17" }
func (m *C17) Done(w *world.World)                       { w.Count("c17.invariant_evaluations", m.checks) }
func (m *C17) Block(w *world.World, e *world.BlockEvent) {}

func (m *C17) invariants(w *world.World, s *DidState, where string) {
	m.checks++
	// account list == accounts bound to the did
	bound := map[string]map[string]bool{} // did -> set of account dids derived from bindings
	idToAccDid := map[string][]string{}
	for ad, aid := range s.AccountId {
		idToAccDid[aid] = append(idToAccDid[aid], ad)
	}
	for aid, d := range s.DidOf {
		ads := idToAccDid[aid]
		if len(ads) == 0 {
			w.Violate("C17", "binding-without-account-did", fmt.Sprintf("%s: account %s is bound to %s but no account-did record points at it", where, aid, d), nil)
		}
		inList := 0
		for _, ad := range ads {
			if bound[d] == nil {
				bound[d] = map[string]bool{}
			}
			for _, x := range s.AccountList[d] {
				if x == ad {
					inList++
					bound[d][ad] = true
				}
			}
		}
		if inList != 1 {
			w.Violate("C17", "bound-account-not-in-account-list", fmt.Sprintf("%s: account %s is bound to %s but appears %d times in that DID's account list %v", where, aid, d, inList, s.AccountList[d]), nil)
		}
	}
	for d, list := range s.AccountList {
		seen := map[string]bool{}
		for _, ad := range list {
			if seen[ad] {
				w.Violate("C17", "account-list-duplicate", fmt.Sprintf("%s: account list of %s lists %s twice", where, d, ad), nil)
			}
			seen[ad] = true
			aid, ok := s.AccountId[ad]
			if !ok || s.DidOf[aid] != d {
				w.Violate("C17", "account-list-entry-not-bound", fmt.Sprintf("%s: account list of %s contains %s whose account (%q) is bound to %q", where, d, ad, aid, s.DidOf[aid]), nil)
			}
		}
	}
	// an eip155 account is the same account however its hex address is capitalised
	canon := map[string]string{}
	for aid, d := range s.DidOf {
		if strings.HasPrefix(aid, "eip155:") {
			c := strings.ToLower(aid)
			if prev, ok := canon[c]; ok {
				w.Violate("C17", "account-bound-twice-under-case-variants", fmt.Sprintf("%s: Ethereum account %s is bound more than once (to %s and %s) under differently capitalised account ids", where, c, prev, d), nil)
			}
			canon[c] = d
		}
	}
	// payment addresses
	kidOf := map[string]string{}
	for addr, kd := range s.Kid {
		if other, dup := kidOf[kd]; dup {
			w.Violate("C17", "key-did-linked-to-two-addresses", fmt.Sprintf("%s: %s is linked to %s and %s", where, kd, other, addr), nil)
		}
		kidOf[kd] = addr
		if s.PayAddr[kd] != addr {
			w.Violate("C17", "kid-table-disagrees-with-payment-address", fmt.Sprintf("%s: address %s is linked to %s whose payment address is %q", where, addr, kd, s.PayAddr[kd]), nil)
		}
	}
	for d, addr := range s.PayAddr {
		switch {
		case strings.HasPrefix(d, "did:sid:"):
			if s.DidOf["cosmos:"+chain.ChainID+":"+addr] != d {
				w.Violate("C17", "sid-payment-address-not-bound", fmt.Sprintf("%s: payment address %s of %s is not an account currently bound to it (bound to %q)", where, addr, d, s.DidOf["cosmos:"+chain.ChainID+":"+addr]), nil)
			}
		case strings.HasPrefix(d, "did:key:"):
			if prev, ok := m.keyPay[d]; ok && prev != addr {
				w.Violate("C17", "key-did-payment-address-changed", fmt.Sprintf("%s: payment address of %s changed from %s to %s", where, d, prev, addr), nil)
			}
			m.keyPay[d] = addr
			if s.Kid[addr] != d {
				w.Violate("C17", "key-did-payment-address-without-link", fmt.Sprintf("%s: %s pays from %s but that address is linked to %q", where, d, addr, s.Kid[addr]), nil)
			}
		}
	}
}

func (m *C17) Tx(w *world.World, e *world.TxEvent) {
	pre := m.prev
	post := snapshotDid(w.C)
	m.prev = post
	if pre == nil {
		// the registry is empty at genesis in these workloads
		pre = &DidState{DidOf: map[string]string{}, AccountList: map[string][]string{}, AccountId: map[string]string{}, AccountAuth: map[string]bool{},
			PayAddr: map[string]string{}, Kid: map[string]string{}, Versions: map[string][]string{}, Docs: map[string]bool{}}
	}
	m.invariants(w, post, "after tx "+e.Kind)
	if e.Signer == nil {
		return
	}
	signer := e.Signer.Addr.String()
	cs := "ordinary"
	if e.Meta != nil {
		if c, ok := e.Meta["c17.case"].(string); ok {
			cs = c
		}
	}
	switch msg := e.Msg.(type) {
	case *didtypes.MsgBinding:
		valid, known := false, false
		if e.Meta != nil {
			if v, ok := e.Meta["c17.proof_valid"].(bool); ok {
				valid, known = v, true
			}
		}
		w.Case("c17:binding:%s:accepted=%v", cs, e.OK)
		if !e.OK {
			// a rejected request leaves the registry untouched
			if fmt.Sprintf("%v", pre) != fmt.Sprintf("%v", post) {
				w.Violate("C17", "rejected-binding-changed-registry:"+cs, "a rejected binding changed the did registry", nil)
			}
			return
		}
		did := msg.Proof.Did
		_, existed := pre.Versions[msg.RootDocId]
		if known && !valid {
			w.Violate("C17", "binding-accepted-without-valid-proof:"+cs, fmt.Sprintf("binding of %s to %s was accepted although the proof is not a fresh statement, signed by that account's key, accepting that DID [%s]", msg.AccountId, did, cs), nil)
		}
		if existed && pre.DidOf["cosmos:"+chain.ChainID+":"+signer] != did {
			w.Violate("C17", "binding-to-existing-did-by-unbound-creator:"+cs, fmt.Sprintf("%s exists but the binding of %s was submitted by %s which is not bound to it", did, msg.AccountId, shortAddr(signer)), nil)
		}
		if prevDid, was := pre.DidOf[msg.AccountId]; was {
			w.Violate("C17", "account-bound-twice:"+cs, fmt.Sprintf("account %s was already bound to %s and is now bound to %s", msg.AccountId, prevDid, did), nil)
		}
	case *didtypes.MsgUpdate:
		w.Case("c17:update:%s:accepted=%v", cs, e.OK)
		if !e.OK {
			if fmt.Sprintf("%v", pre) != fmt.Sprintf("%v", post) {
				w.Violate("C17", "rejected-update-changed-registry:"+cs, "a rejected key rotation changed the did registry", nil)
			}
			return
		}
		if pre.DidOf["cosmos:"+chain.ChainID+":"+signer] != msg.Did {
			w.Violate("C17", "update-by-unbound-creator:"+cs, fmt.Sprintf("key rotation of %s submitted by %s which is not bound to it", msg.Did, shortAddr(signer)), nil)
		}
		if pa, ok := pre.PayAddr[msg.Did]; ok {
			if post.DidOf["cosmos:"+chain.ChainID+":"+pa] != msg.Did {
				w.Violate("C17", "update-unbound-payment-account:"+cs, fmt.Sprintf("key rotation of %s removed its payment account %s", msg.Did, pa), nil)
			}
		}
	case *didtypes.MsgUpdatePaymentAddress:
		w.Case("c17:payaddr:%s:accepted=%v", cs, e.OK)
		if !e.OK {
			if fmt.Sprintf("%v", pre) != fmt.Sprintf("%v", post) {
				w.Violate("C17", "rejected-payaddr-changed-registry:"+cs, "a rejected payment-address update changed the did registry", nil)
			}
			return
		}
		if strings.HasPrefix(msg.Did, "did:key:") {
			if post.PayAddr[msg.Did] != signer {
				w.Violate("C17", "key-did-payment-address-set-by-other:"+cs, fmt.Sprintf("payment address of %s set to %s by %s", msg.Did, post.PayAddr[msg.Did], shortAddr(signer)), nil)
			}
			if old, had := pre.PayAddr[msg.Did]; had && old != post.PayAddr[msg.Did] {
				w.Violate("C17", "key-did-payment-address-changed:"+cs, fmt.Sprintf("payment address of %s changed from %s", msg.Did, old), nil)
			}
		} else {
			if pre.DidOf["cosmos:"+chain.ChainID+":"+signer] != msg.Did {
				w.Violate("C17", "sid-payment-address-set-by-unbound-creator:"+cs, fmt.Sprintf("payment address of %s set by %s which is not bound to it", msg.Did, shortAddr(signer)), nil)
			}
		}
	}
}

// ---------------------------------------------------------------- scenario

type didWorld struct {
	w     *world.World
	accts []*actors.Account
	sids  []*actors.SidDid
	ts    func() uint64
}

// ethPrefix is the CAIP-10 prefix used by the eip155 probes of one run: the usual chain reference 1, or (for half
// of the seeds) this chain's own id as the reference, which makes "eip155:<chain id>:0x.." look local to careless checks.
var ethPrefix = "eip155:1:"

func ethProof(secret string, did string, ts uint64, message string, corrupt bool) (*didtypes.BindingProof, string) {
	key, err := ethcrypto.ToECDSA(ethcrypto.Keccak256([]byte("eth/" + secret)))
	if err != nil {
		panic(err)
	}
	addr := strings.ToLower(ethcrypto.PubkeyToAddress(key.PublicKey).Hex())
	hash := ethcrypto.Keccak256([]byte("\u0019Ethereum Signed Message:\n" + fmt.Sprint(len(message)) + message))
	sig, err := ethcrypto.Sign(hash, key)
	if err != nil {
		panic(err)
	}
	sig[64] += 27
	if corrupt {
		sig[10] ^= 0x55
	}
	accId := ethPrefix + addr
	return &didtypes.BindingProof{Version: 1, Message: message, Signature: "0x" + hex.EncodeToString(sig), Account: accId, Did: did, Timestamp: ts}, accId
}

func scnDidReg(ctx *check.JobCtx) {
	w := newLifeWorld(ctx, monitorsFor(ctx.Job.Prop)...)
	var funded []*actors.Account
	n := 8
	for i := 0; i < n; i++ {
		funded = append(funded, w.Acct(fmt.Sprintf("u%d", i)))
	}
	gen := w.StandardGenesis(chain.DefaultNodeParams(), funded, 1_000_000_000, nil)
	if err := w.Init(gen, 1); err != nil {
		w.Finish()
		return
	}
	r := w.Rng
	ethPrefix = "eip155:1:"
	if ctx.Job.Seed%2 == 0 {
		ethPrefix = "eip155:" + chain.ChainID + ":"
	}
	now := func() uint64 { return uint64(chain.BlockTime(w.H()).Unix()) }
	var sids []*actors.SidDid
	accDidSeq := 0
	bind := func(cs string, creator, acct *actors.Account, sid *actors.SidDid, proof *didtypes.BindingProof, accountId string, valid bool, keys []*didtypes.PubKey) *world.TxEvent {
		accDidSeq++
		m := &didtypes.MsgBinding{Creator: creator.Addr.String(), AccountId: accountId, RootDocId: sid.RootDoc, Keys: keys,
			AccountAuth: &didtypes.AccountAuth{AccountDid: fmt.Sprintf("did:key:accdid%d", accDidSeq), AccountEncryptedSeed: "s", SidEncryptedAccount: "a"}, Proof: proof}
		return w.Deliver("did-binding", creator, map[string]interface{}{"c17.case": cs, "c17.proof_valid": valid}, m)
	}
	// deterministic prefix: an address links itself to a key DID; blocks later the same address tries a second key
	// DID and another address tries to take over the first one
	{
		k0, k1 := actors.NewKeyDid("kfix0"), actors.NewKeyDid("kfix1")
		u0, u1 := funded[0], funded[1]
		w.Deliver("did-payaddr", u0, map[string]interface{}{"c17.case": "key/first-link"}, &didtypes.MsgUpdatePaymentAddress{Creator: u0.Addr.String(), AccountId: u0.AccountID(), Did: k0.Did})
		w.EndBlock()
		w.EndBlock()
		w.Deliver("did-payaddr", u0, map[string]interface{}{"c17.case": "key/second-key-did-for-linked-address"}, &didtypes.MsgUpdatePaymentAddress{Creator: u0.Addr.String(), AccountId: u0.AccountID(), Did: k1.Did})
		w.Deliver("did-payaddr", u1, map[string]interface{}{"c17.case": "key/takeover-of-linked-key-did"}, &didtypes.MsgUpdatePaymentAddress{Creator: u1.Addr.String(), AccountId: u1.AccountID(), Did: k0.Did})
		w.EndBlock()
	}
	// deterministic prefix: a sid with four bound accounts; one rotation drops two accounts that are neighbours in
	// the stored account list, the next one re-binds them and drops two that are not neighbours
	{
		owner := funded[2]
		ts := now()
		sidN := actors.NewSidDid(fmt.Sprintf("n%d", ctx.Job.Seed), ts)
		p := actors.CosmosProof(owner, sidN.DID(), ts, actors.BindingMessage(sidN.DID(), ts))
		if e := bind("create/valid", owner, owner, sidN, p, owner.AccountID(), true, sidN.Versions[0].Keys); e.OK {
			sids = append(sids, sidN)
			for _, f := range funded[3:6] {
				ts := now()
				p := actors.CosmosProof(f, sidN.DID(), ts, actors.BindingMessage(sidN.DID(), ts))
				bind("add/valid/creator-bound", owner, f, sidN, p, f.AccountID(), true, sidN.Versions[0].Keys)
			}
			w.EndBlock()
			for round, gap := range []int{1, 2} {
				st := snapshotDid(w.C)
				list := st.AccountList[sidN.DID()] // stored order
				pay := "cosmos:" + chain.ChainID + ":" + st.PayAddr[sidN.DID()]
				drop := map[string]bool{}
				for i := 0; i+gap < len(list); i++ {
					if st.AccountId[list[i]] != pay && st.AccountId[list[i+gap]] != pay {
						drop[list[i]], drop[list[i+gap]] = true, true
						break
					}
				}
				var remove []string
				var keep []*didtypes.AccountAuth
				for _, ad := range list {
					if drop[ad] {
						remove = append(remove, ad)
					} else {
						keep = append(keep, &didtypes.AccountAuth{AccountDid: ad, AccountEncryptedSeed: "s4", SidEncryptedAccount: "a4"})
					}
				}
				ts := now()
				nv := actors.NewSidVersion(sidN.Name, 100+round, ts)
				m := &didtypes.MsgUpdate{Creator: owner.Addr.String(), Did: sidN.DID(), NewDocId: nv.DocId, Keys: nv.Keys, Timestamp: ts, UpdateAccountAuth: keep, RemoveAccountDid: remove, PastSeed: fmt.Sprintf("seedn%d", round)}
				cs := fmt.Sprintf("rotate/creator-bound=true/removes=%d/neighbours=%v", len(remove), gap == 1)
				if e := w.Deliver("did-update", owner, map[string]interface{}{"c17.case": cs}, m); e.OK {
					sidN.Versions = append(sidN.Versions, nv)
				}
				w.EndBlock()
				// the dropped accounts bind again (fresh proofs), so that the next rotation has four accounts to choose from
				st = snapshotDid(w.C)
				for _, f := range funded[3:6] {
					if st.DidOf[f.AccountID()] == "" {
						ts := now()
						p := actors.CosmosProof(f, sidN.DID(), ts, actors.BindingMessage(sidN.DID(), ts))
						bind("add/valid/creator-bound", owner, f, sidN, p, f.AccountID(), true, sidN.Versions[len(sidN.Versions)-1].Keys)
					}
				}
				w.EndBlock()
			}
		}
	}
	ops := int(ctx.ArgInt("ops", 120))
	for i := 0; i < ops && !w.Halted(); i++ {
		acct := funded[r.Intn(n)]
		other := funded[r.Intn(n)]
		switch r.Intn(12) {
		case 0, 1: // create a new sid with a valid proof
			ts := now()
			cs := "create/valid"
			if r.Intn(4) == 0 {
				// a proof dated ahead of the block that carries it (minutes to hours): fresh by any reading of block time
				ts += []uint64{120, 299, 301, 600, 3500, 7200}[r.Intn(6)]
				cs = "create/valid-dated-ahead"
			}
			sid := actors.NewSidDid(fmt.Sprintf("s%d-%d", ctx.Job.Seed, i), ts)
			p := actors.CosmosProof(acct, sid.DID(), ts, actors.BindingMessage(sid.DID(), ts))
			if e := bind(cs, acct, acct, sid, p, acct.AccountID(), true, sid.Versions[0].Keys); e.OK {
				sids = append(sids, sid)
			}
		case 2: // bind another account to an existing sid
			if len(sids) == 0 {
				continue
			}
			sid := sids[r.Intn(len(sids))]
			ts := now()
			p := actors.CosmosProof(acct, sid.DID(), ts, actors.BindingMessage(sid.DID(), ts))
			// creator: an account bound to the sid, or somebody else
			creator := other
			cs := "add/valid/creator-random"
			for aid, d := range snapshotDid(w.C).DidOf {
				if d == sid.DID() && r.Intn(2) == 0 {
					for _, f := range funded {
						if f.AccountID() == aid {
							creator = f
							cs = "add/valid/creator-bound"
						}
					}
				}
			}
			bind(cs, creator, acct, sid, p, acct.AccountID(), true, sid.Versions[0].Keys)
		case 3: // proof signed by somebody else's key
			ts := now()
			sid := actors.NewSidDid(fmt.Sprintf("w%d-%d", ctx.Job.Seed, i), ts)
			p := actors.CosmosProof(other, sid.DID(), ts, actors.BindingMessage(sid.DID(), ts))
			if other != acct {
				bind("create/wrong-key", acct, acct, sid, p, acct.AccountID(), false, sid.Versions[0].Keys)
			}
		case 4: // stale proof
			ts := now() - 16*60 - uint64(r.Intn(1000))
			sid := actors.NewSidDid(fmt.Sprintf("o%d-%d", ctx.Job.Seed, i), ts)
			p := actors.CosmosProof(acct, sid.DID(), ts, actors.BindingMessage(sid.DID(), ts))
			bind("create/stale", acct, acct, sid, p, acct.AccountID(), false, sid.Versions[0].Keys)
		case 5: // a proof the account signed for DID X, resubmitted by an attacker for its own DID Y
			tsX := now()
			sidX := actors.NewSidDid(fmt.Sprintf("x%d-%d", ctx.Job.Seed, i), tsX)
			px := actors.CosmosProof(acct, sidX.DID(), tsX, actors.BindingMessage(sidX.DID(), tsX))
			if len(sids) == 0 {
				continue
			}
			sidY := sids[r.Intn(len(sids))]
			var att *actors.Account
			for aid, d := range snapshotDid(w.C).DidOf {
				if d == sidY.DID() {
					for _, f := range funded {
						if f.AccountID() == aid && f != acct {
							att = f
						}
					}
				}
			}
			if att == nil {
				continue
			}
			py := *px
			py.Did = sidY.DID()
			py.Timestamp = now()
			bind("add/replayed-for-other-did", att, acct, sidY, &py, acct.AccountID(), false, sidY.Versions[0].Keys)
		case 6: // a genuine old proof replayed with a fresh timestamp field
			tsOld := now() - 3600
			sid := actors.NewSidDid(fmt.Sprintf("r%d-%d", ctx.Job.Seed, i), now())
			p := actors.CosmosProof(acct, sid.DID(), tsOld, actors.BindingMessage(sid.DID(), tsOld))
			p.Timestamp = now()
			sid2 := actors.NewSidDid(fmt.Sprintf("r%d-%d", ctx.Job.Seed, i), p.Timestamp)
			p.Did = sid2.DID()
			bind("create/replayed-with-new-timestamp", acct, acct, sid2, p, acct.AccountID(), false, sid2.Versions[0].Keys)
		case 7: // eip155
			ts := now()
			sid := actors.NewSidDid(fmt.Sprintf("e%d-%d", ctx.Job.Seed, i), ts)
			corrupt := r.Intn(2) == 0
			p, accId := ethProof(fmt.Sprintf("k%d", r.Intn(4)), sid.DID(), ts, actors.BindingMessage(sid.DID(), ts), corrupt)
			cs := "create/eip155-valid"
			if corrupt {
				cs = "create/eip155-corrupt"
			}
			// the same Ethereum account written with other letter case is still the same account
			variant := r.Intn(3)
			if variant == 1 {
				accId = ethPrefix + "0x" + strings.ToUpper(accId[len(ethPrefix+"0x"):])
				cs += "/uppercase"
			} else if variant == 2 {
				h := accId[len(ethPrefix+"0x"):]
				accId = ethPrefix + "0x" + strings.ToUpper(h[:20]) + h[20:]
				cs += "/mixedcase"
			}
			p.Account = accId
			// an eip155 binding to an EXISTING sid by a creator bound to it, half of the time
			if len(sids) > 0 && r.Intn(2) == 0 {
				sidY := sids[r.Intn(len(sids))]
				st := snapshotDid(w.C)
				for _, f := range funded {
					if st.DidOf[f.AccountID()] == sidY.DID() {
						p2, acc2 := ethProof(fmt.Sprintf("k%d", r.Intn(4)), sidY.DID(), ts, actors.BindingMessage(sidY.DID(), ts), false)
						if variant == 1 {
							acc2 = ethPrefix + "0x" + strings.ToUpper(acc2[len(ethPrefix+"0x"):])
						}
						p2.Account = acc2
						bind("add/eip155"+cs[len("create/eip155"):], f, f, sidY, p2, acc2, true, sidY.Versions[0].Keys)
						break
					}
				}
			}
			bind(cs, acct, acct, sid, p, accId, !corrupt, sid.Versions[0].Keys)
		case 8: // malformed signature strings / account ids
			ts := now()
			sid := actors.NewSidDid(fmt.Sprintf("m%d-%d", ctx.Job.Seed, i), ts)
			p := actors.CosmosProof(acct, sid.DID(), ts, actors.BindingMessage(sid.DID(), ts))
			accId := acct.AccountID()
			switch r.Intn(5) {
			case 0:
				p.Signature = "tendermint/PubKeySecp256k1"
			case 1:
				p.Signature = "tendermint/PubKeySecp256k1.!!!.???"
			case 2:
				p.Signature = ""
			case 3:
				accId = ethPrefix + "0x"
				p.Signature = "0x"
			case 4:
				accId = "cosmos:" + chain.ChainID + ":" + other.Addr.String() // proof by acct, account id of other
			}
			if accId == acct.AccountID() && p.Signature != "" && strings.Count(p.Signature, ".") == 2 && !strings.Contains(p.Signature, "!") {
				continue
			}
			bind("create/malformed", acct, acct, sid, p, accId, false, sid.Versions[0].Keys)
		case 9: // payment address updates
			st := snapshotDid(w.C)
			if r.Intn(2) == 0 && len(sids) > 0 {
				sid := sids[r.Intn(len(sids))]
				target := other.AccountID()
				kind := "cosmos"
				if r.Intn(3) == 0 {
					// an eip155 account bound to this sid, named as payment account by a creator bound to it
					var eths []string
					for aid, d := range st.DidOf {
						if d == sid.DID() && strings.HasPrefix(aid, "eip155:") {
							eths = append(eths, aid)
						}
					}
					sort.Strings(eths)
					if len(eths) > 0 {
						target, kind = eths[r.Intn(len(eths))], "eip155"
						for _, f := range funded {
							if st.DidOf[f.AccountID()] == sid.DID() {
								acct = f
								break
							}
						}
					}
				}
				m := &didtypes.MsgUpdatePaymentAddress{Creator: acct.Addr.String(), AccountId: target, Did: sid.DID()}
				cs := fmt.Sprintf("sid/creator-bound=%v/target-bound=%v/%s", st.DidOf[acct.AccountID()] == sid.DID(), st.DidOf[target] == sid.DID(), kind)
				w.Deliver("did-payaddr", acct, map[string]interface{}{"c17.case": cs}, m)
			} else {
				kd := actors.NewKeyDid(fmt.Sprintf("k%d", r.Intn(5)))
				if r.Intn(2) == 0 {
					other = acct // an address registering itself (the only accepted form), possibly for a second key DID
				}
				m := &didtypes.MsgUpdatePaymentAddress{Creator: acct.Addr.String(), AccountId: other.AccountID(), Did: kd.Did}
				if r.Intn(3) == 0 {
					// the same key DID written as a DID URL (fragment / query / path)
					m.Did = kd.Did + []string{"#" + kd.Did[8:], "?x=1", "/p", "#"}[r.Intn(4)]
				}
				_, had := st.PayAddr[kd.Did]
				cs := fmt.Sprintf("key/self=%v/already-set=%v/addr-linked=%v/url=%v", acct == other, had, st.Kid[other.Addr.String()] != "", m.Did != kd.Did)
				w.Deliver("did-payaddr", acct, map[string]interface{}{"c17.case": cs}, m)
			}
		case 10, 11: // key rotation with unbinding
			if len(sids) == 0 {
				continue
			}
			sid := sids[r.Intn(len(sids))]
			st := snapshotDid(w.C)
			if r.Intn(2) == 0 {
				for _, f := range funded {
					if st.DidOf[f.AccountID()] == sid.DID() {
						acct = f
					}
				}
			}
			list := append([]string{}, st.AccountList[sid.DID()]...)
			if len(list) == 0 {
				continue
			}
			sort.Strings(list)
			pay := st.PayAddr[sid.DID()]
			var remove []string
			var keep []*didtypes.AccountAuth
			removesPay := false
			for _, ad := range list {
				aid := st.AccountId[ad]
				isPay := aid == "cosmos:"+chain.ChainID+":"+pay
				if (r.Intn(2) == 0 && !isPay) || (isPay && r.Intn(4) == 0) {
					remove = append(remove, ad)
					if isPay {
						removesPay = true
					}
				} else {
					keep = append(keep, &didtypes.AccountAuth{AccountDid: ad, AccountEncryptedSeed: "s2", SidEncryptedAccount: "a2"})
				}
			}
			// sometimes the request also names account-dids that belong to another DID
			foreign := false
			if r.Intn(4) == 0 {
				for otherDid, l2 := range st.AccountList {
					if otherDid != sid.DID() && len(l2) > 0 {
						if r.Intn(2) == 0 {
							remove = append(remove, l2[0])
						} else {
							keep = append(keep, &didtypes.AccountAuth{AccountDid: l2[0], AccountEncryptedSeed: "s3", SidEncryptedAccount: "a3"})
						}
						foreign = true
						break
					}
				}
			}
			ts := now()
			nv := actors.NewSidVersion(sid.Name, len(sid.Versions)+i, ts)
			m := &didtypes.MsgUpdate{Creator: acct.Addr.String(), Did: sid.DID(), NewDocId: nv.DocId, Keys: nv.Keys, Timestamp: ts, UpdateAccountAuth: keep, RemoveAccountDid: remove, PastSeed: fmt.Sprintf("seed%d", i)}
			cs := fmt.Sprintf("rotate/creator-bound=%v/removes=%d/removes-payment=%v/keeps=%d/foreign=%v", st.DidOf[acct.AccountID()] == sid.DID(), minInt(len(remove), 2), removesPay, minInt(len(keep), 2), foreign)
			if e := w.Deliver("did-update", acct, map[string]interface{}{"c17.case": cs}, m); e.OK {
				sid.Versions = append(sid.Versions, nv)
			}
		}
		if r.Intn(3) == 0 {
			w.EndBlock()
		}
	}
	w.Sample("did registry walk: %s", traceSummary(w))
	w.Finish()
}
