package props

import (
	"fmt"
	"reflect"
	"sort"
	"strings"

	"saoverif/actors"
	"saoverif/chain"
	"saoverif/check"
	"saoverif/mon"
	"saoverif/world"

	modeltypes "github.com/SaoNetwork/sao/x/model/types"
	saotypes "github.com/SaoNetwork/sao/x/sao/types"
	"github.com/cosmos/cosmos-sdk/crypto/keys/secp256k1"
)

// modelProjection is everything the chain records about one data model.
type modelProjection struct {
	Meta   *modeltypes.Metadata
	Alias  []string
	Orders map[uint64]string
	Shards map[uint64]string
	Expiry []uint64
}

func projectModel(s *mon.State, dataId string) modelProjection {
	p := modelProjection{Orders: map[uint64]string{}, Shards: map[uint64]string{}}
	if md, ok := s.Metas[dataId]; ok {
		c := md
		p.Meta = &c
	}
	for k, d := range s.Models {
		if d == dataId {
			p.Alias = append(p.Alias, k)
		}
	}
	sort.Strings(p.Alias)
	for id, o := range s.Orders {
		if o.DataId == dataId {
			p.Orders[id] = fmt.Sprintf("%+v", o)
			for _, sid := range o.Shards {
				if sh, ok := s.Shards[sid]; ok {
					p.Shards[sid] = fmt.Sprintf("%+v", sh)
				}
			}
		}
	}
	for h, l := range s.ExpData {
		for _, d := range l {
			if d == dataId {
				p.Expiry = append(p.Expiry, h)
			}
		}
	}
	sort.Slice(p.Expiry, func(i, j int) bool { return p.Expiry[i] < p.Expiry[j] })
	return p
}

func (a modelProjection) diff(b modelProjection) string {
	var d []string
	if !reflect.DeepEqual(a.Meta, b.Meta) {
		switch {
		case a.Meta == nil:
			d = append(d, "model created")
		case b.Meta == nil:
			d = append(d, "model deleted")
		default:
			av, bv := reflect.ValueOf(*a.Meta), reflect.ValueOf(*b.Meta)
			for i := 0; i < av.NumField(); i++ {
				if !reflect.DeepEqual(av.Field(i).Interface(), bv.Field(i).Interface()) {
					d = append(d, fmt.Sprintf("%s: %v -> %v", av.Type().Field(i).Name, av.Field(i).Interface(), bv.Field(i).Interface()))
				}
			}
		}
	}
	if !reflect.DeepEqual(a.Alias, b.Alias) {
		d = append(d, "alias entries changed")
	}
	if !reflect.DeepEqual(a.Orders, b.Orders) {
		d = append(d, fmt.Sprintf("orders changed (%d -> %d)", len(a.Orders), len(b.Orders)))
	}
	if !reflect.DeepEqual(a.Shards, b.Shards) {
		d = append(d, fmt.Sprintf("shards changed (%d -> %d)", len(a.Shards), len(b.Shards)))
	}
	if !reflect.DeepEqual(a.Expiry, b.Expiry) {
		d = append(d, fmt.Sprintf("expiry schedule %v -> %v", a.Expiry, b.Expiry))
	}
	return strings.Join(d, "; ")
}

// C09 monitor: every transaction carries, in Meta, what the request factory
// knows by construction: c09.target (data id), c09.authorized (bool),
// c09.case (signature of the probe).  An unauthorized request must leave the
// whole projection of the target model untouched.
type C09 struct {
	probes, controls, controlsOK int64
}

func (m *C09) ID() string { return "C09" }
func (m *C09) Done(w *world.World) {
	w.Count("c09.unauthorized_probes", m.probes)
	w.Count("c09.authorized_controls", m.controls)
	w.Count("c09.authorized_controls_accepted", m.controlsOK)
}
func (m *C09) Block(w *world.World, e *world.BlockEvent) {}

// entitled: the DID is the model's owner or one of its read-write grantees (pre-state).
func entitled(md *modeltypes.Metadata, did string) bool {
	if md.Owner == did {
		return true
	}
	for _, d := range md.ReadwriteDids {
		if d == did {
			return true
		}
	}
	return false
}

// contentOracle: independent of the request factory — whenever the content version or history of an existing
// model changes, the order that caused it must have been created for (signed by) the owner or a grantee.
func (m *C09) contentOracle(w *world.World, e *world.TxEvent) {
	for d, a := range e.Pre.Metas {
		b, ok := e.Post.Metas[d]
		if !ok || a.CreatedAt != b.CreatedAt {
			continue
		}
		if a.Commit == b.Commit && reflect.DeepEqual(a.Commits, b.Commits) && a.Cid == b.Cid && a.OrderId == b.OrderId {
			continue
		}
		var by string
		switch msg := e.Msg.(type) {
		case *saotypes.MsgComplete:
			if o, ok := e.Pre.Orders[msg.OrderId]; ok {
				by = o.Owner
			}
		case *saotypes.MsgStore:
			by = msg.Proposal.Owner
		case *saotypes.MsgRenew:
			by = msg.Proposal.Owner
		default:
			continue // cancel / terminate / timeouts restore or remove, decided elsewhere
		}
		ac := a
		if by != "" && !entitled(&ac, by) {
			w.Violate("C09", "content-changed-by-order-of-unentitled-did:"+e.Kind, fmt.Sprintf("tx %s changed version/history of model %s (owner %s) on behalf of %s, which is neither its owner nor a read-write grantee: commit %q -> %q, %d -> %d history entries", e.Kind, d, a.Owner, by, a.Commit, b.Commit, len(a.Commits), len(b.Commits)), nil)
		}
	}
}

func (m *C09) Tx(w *world.World, e *world.TxEvent) {
	if e.Pre != nil && e.Post != nil && e.OK {
		m.contentOracle(w, e)
	}
	if e.Meta == nil || e.Pre == nil || e.Post == nil {
		return
	}
	target, ok := e.Meta["c09.target"].(string)
	if !ok {
		return
	}
	auth, _ := e.Meta["c09.authorized"].(bool)
	cs, _ := e.Meta["c09.case"].(string)
	if auth {
		m.controls++
		if e.OK {
			m.controlsOK++
		}
		w.Case("c09:control:%s:accepted=%v", cs, e.OK)
		return
	}
	m.probes++
	a, b := projectModel(e.Pre, target), projectModel(e.Post, target)
	w.Case("c09:probe:%s:rejected=%v", cs, !e.OK)
	if d := a.diff(b); d != "" {
		w.Violate("C09", "unauthorized-change:"+cs, fmt.Sprintf("request [%s] is not signed over exactly its bytes by the owner (or, for update/terminate, a read-write grantee) of %s, yet the model changed (tx code %d): %s", cs, target, e.Res.Code, d), nil)
	}
	// other victims' models must not change either
	if others, ok := e.Meta["c09.others"].([]string); ok {
		for _, o := range others {
			if d := projectModel(e.Pre, o).diff(projectModel(e.Post, o)); d != "" {
				w.Violate("C09", "unauthorized-change-other-model:"+cs, fmt.Sprintf("request [%s] changed another model %s: %s", cs, o, d), nil)
			}
		}
	}
}

// ---------------------------------------------------------------- scenario

type fakeId struct {
	did, kid string
	key      *secp256k1.PrivKey
}

func (f fakeId) DID() string                 { return f.did }
func (f fakeId) Kid() string                 { return f.kid }
func (f fakeId) SignKey() *secp256k1.PrivKey { return f.key }

type authzWorld struct {
	w        *world.World
	gw, gw2  *world.Provider
	sps      []*world.Provider
	owner    *world.Owner // did:key
	sowner   *world.Owner // did:sid
	rw, ro   *world.Owner
	stranger *world.Owner
	revoked  *world.Owner
	attSid   *world.Owner // attacker with its own sid
	nonNode  *actors.Account
	models   map[string]*world.Owner // data id -> owner
	version  map[string]int
}

func setupAuthz(w *world.World) *authzWorld {
	a := &authzWorld{w: w, models: map[string]*world.Owner{}, version: map[string]int{}}
	var funded []*actors.Account
	for _, n := range []string{"gw0", "gw0-hot", "gw1", "sp0", "sp1", "sp2", "sp3", "nonnode", "attacker",
		"pay-owner", "pay-sowner", "pay-rw", "pay-ro", "pay-stranger", "pay-revoked", "pay-attsid"} {
		funded = append(funded, w.Acct(n))
	}
	np := chain.DefaultNodeParams()
	np.OfflineTriggerHeight = 1_000_000
	gen := w.StandardGenesis(np, funded, 10_000_000_000, nil)
	if err := w.Init(gen, 1); err != nil {
		return a
	}
	a.gw = w.SetupProvider(w.Acct("gw0"), 0, w.Acct("gw0-hot"))
	a.gw2 = w.SetupProvider(w.Acct("gw1"), 0)
	for i := 0; i < 4; i++ {
		a.sps = append(a.sps, w.SetupProvider(w.Acct(fmt.Sprintf("sp%d", i)), 500_000_000))
	}
	w.Providers = a.sps
	a.nonNode = w.Acct("nonnode")
	a.owner = w.NewKeyOwner("owner")
	a.rw = w.NewKeyOwner("rw")
	a.ro = w.NewKeyOwner("ro")
	w.EndBlock()
	a.stranger = w.NewKeyOwner("stranger")
	a.revoked = w.NewKeyOwner("revoked")
	a.sowner = w.NewSidOwner("sowner")
	a.attSid = w.NewSidOwner("attsid")
	w.EndBlock()
	return a
}

// newModel stores and completes a model of o, granting rw/ro.
func (a *authzWorld) newModel(o *world.Owner, replica int32) string {
	w := a.w
	did := w.NewDataId()
	_, oid := w.Store(world.StoreReq{Owner: o.Id, Gateway: a.gw, DataId: did, CommitId: did, Duration: 3600 + uint64(w.Rng.Intn(500)), Replica: replica, Timeout: 400, Size: 1000,
		RO: []string{a.ro.Id.DID()}, RW: []string{a.rw.Id.DID(), a.revoked.Id.DID()}})
	if oid == 0 {
		return ""
	}
	w.CompleteAll(oid)
	// the readwrite list is only set through a permission update: do it, then revoke one grantee
	w.UpdatePermission(o.Id, nil, a.gw.Acct, "", did, []string{a.ro.Id.DID()}, []string{a.rw.Id.DID(), a.revoked.Id.DID()}, nil)
	w.UpdatePermission(o.Id, nil, a.gw.Acct, "", did, []string{a.ro.Id.DID()}, []string{a.rw.Id.DID()}, nil)
	w.EndBlock()
	a.models[did] = o
	return did
}

func (a *authzWorld) nextCommit(did string) string {
	a.version[did]++
	c := fmt.Sprintf("%s-v%d", did[:30], a.version[did])
	return (c + "xxxxxxxxxxxxxxxxxxxxxxxxxxxxxxxxxxxx")[:36]
}

func (a *authzWorld) others(target string) []string {
	var out []string
	for d := range a.models {
		if d != target {
			if _, ok := a.w.Cur.Metas[d]; ok {
				out = append(out, d)
			}
		}
	}
	sort.Strings(out)
	return out
}

type signerRole struct {
	name string
	id   actors.Identity
	// for which request kinds is this signer authorized
	update, terminate, ownerOnly bool
}

func (a *authzWorld) roles(o *world.Owner) []signerRole {
	return []signerRole{
		{"ro", a.ro.Id, false, false, false},
		{"stranger", a.stranger.Id, false, false, false},
		{"revoked", a.revoked.Id, false, false, false},
		{"rw", a.rw.Id, true, true, false},
		{"owner", o.Id, true, true, true},
	}
}

// probeAll runs the adversary matrix against one model.
type relayer struct {
	acct *actors.Account
	name string
}

func (a *authzWorld) probeAll(target string, relayers []relayer, mutations []string, kinds []string) {
	w := a.w
	o := a.models[target]
	for _, kind := range kinds {
		for _, mut := range mutations {
			for _, role := range a.roles(o) {
				for _, rel := range relayers {
					if w.Halted() {
						return
					}
					if _, ok := w.Cur.Metas[target]; !ok {
						// the model was (legitimately) terminated: continue on a fresh one
						target = a.newModel(o, 1)
						if target == "" {
							return
						}
					}
					a.probe(target, o, kind, role, mut, rel.acct, rel.name)
				}
			}
		}
	}
}

func (a *authzWorld) probe(target string, o *world.Owner, kind string, role signerRole, mut string, rel *actors.Account, relName string) {
	w := a.w
	md := w.Cur.Metas[target]
	authorized := false
	switch kind {
	case "update", "forcepush":
		authorized = role.update
	case "terminate":
		authorized = role.terminate
	case "renew", "permission":
		authorized = role.ownerOnly
	}
	if mut != "none" && !strings.HasPrefix(mut, "commit-") {
		// commit-id shapes do not touch the signature: an owner-signed request stays owner-signed
		authorized = false
	}
	cs := fmt.Sprintf("%s/%s/%s/%s", kind, role.name, mut, relName)
	meta := map[string]interface{}{"c09.target": target, "c09.authorized": authorized, "c09.case": cs, "c09.others": a.others(target)}
	provider := a.gw.Acct.Addr.String()
	if relName == "othergw" {
		provider = a.gw2.Acct.Addr.String()
	} else if relName == "nonnode" {
		provider = rel.Addr.String()
	}

	// the proposal owner field: a grantee signs its own request (owner field = its DID)
	ownerField := role.id
	signer := role.id
	switch mut {
	case "owner-field-victim": // claims to be the owner but signs with its own key and kid
		ownerField = o.Id
	case "kid-of-owner": // claims the owner's kid in the header but signs with its own key
		ownerField = o.Id
		signer = fakeId{did: o.Id.DID(), kid: o.Id.Kid(), key: role.id.SignKey()}
	case "sid-version-confusion":
		// kid names the victim sid with a document version that belongs to the attacker's sid
		vs, ok := o.Id.(*actors.SidDid)
		as := a.attSid.Id.(*actors.SidDid)
		if !ok {
			return
		}
		ownerField = o.Id
		signer = fakeId{did: vs.DID(), kid: fmt.Sprintf("did:sid:%s?versionId=%s#signing", vs.RootDoc, as.Latest().DocId), key: as.SignKey()}
	}
	if (mut == "owner-field-victim" || mut == "kid-of-owner" || mut == "sid-version-confusion") && role.name == "owner" {
		return // the owner impersonating itself is not a probe
	}

	switch kind {
	case "update", "forcepush":
		op := uint32(1)
		if kind == "forcepush" {
			op = 2
		}
		commit := md.Commit + "|" + a.nextCommit(target)
		req := world.StoreReq{Owner: ownerField, Signer: signer, Gateway: a.gw, Relayer: rel, MsgProv: provider, DataId: target, CommitId: commit,
			Duration: 3600, Replica: 1, Timeout: 300, Size: 1000, Operation: op, Meta: meta, Alias: world.AliasOf(md.Alias)}
		switch mut {
		case "payload-altered":
			req.Tamper = func(m *saotypes.MsgStore) { m.Proposal.Duration += 1; m.Proposal.Cid = world.Cid2 }
			req.Owner, req.Signer = o.Id, o.Id // a genuine owner signature over different bytes
		case "replayed-signature":
			other := saotypes.Proposal{Owner: o.Id.DID(), DataId: "unrelated"}
			sig := actors.SignProposal(o.Id, &other)
			req.Owner, req.Signer = o.Id, o.Id
			req.Tamper = func(m *saotypes.MsgStore) { m.JwsSignature = sig }
		case "garbage-jws":
			req.Owner = o.Id
			req.Tamper = func(m *saotypes.MsgStore) {
				m.JwsSignature = saotypes.JwsSignature{Protected: "e30", Signature: "AAAA"}
			}
		case "empty-jws":
			req.Owner = o.Id
			req.Tamper = func(m *saotypes.MsgStore) { m.JwsSignature = saotypes.JwsSignature{} }
		case "commit-embeds-dataid":
			req.CommitId = "|" + target + "-evil"
		case "commit-dataid-prefix":
			req.CommitId = target + "|" + a.nextCommit(target)
		case "commit-empty-base":
			req.CommitId = "|" + a.nextCommit(target)
		case "commit-separators":
			req.CommitId = "||"
		case "commit-bare-latest":
			// no separator at all: exactly the model's latest commit id (looks like a creation, names an existing model)
			if md, ok := w.Cur.Metas[target]; ok {
				req.CommitId = md.Commit
			}
		case "commit-bare-new":
			req.CommitId = a.nextCommit(target)
		}
		e, oid := w.Store(req)
		if e.OK && oid != 0 {
			// settle the accepted request so that the next probe meets a committed model again
			w.CompleteAll(oid)
			if cur, ok := w.Cur.Orders[oid]; ok && cur.Status != OrderCompleted {
				w.Cancel(rel, oid, provider)
			}
		}
	case "renew":
		p := saotypes.RenewProposal{Owner: ownerField.DID(), Duration: 3600, Timeout: 300, Data: []string{target}}
		sig := actors.SignProposal(signer, &p)
		switch mut {
		case "payload-altered":
			p = saotypes.RenewProposal{Owner: o.Id.DID(), Duration: 3600, Timeout: 300, Data: []string{target}}
			sig = actors.SignProposal(o.Id, &p)
			p.Duration = 7200
		case "replayed-signature":
			p = saotypes.RenewProposal{Owner: o.Id.DID(), Duration: 3600, Timeout: 300, Data: []string{target}}
			other := saotypes.RenewProposal{Owner: o.Id.DID(), Duration: 3600, Data: []string{"unrelated"}}
			sig = actors.SignProposal(o.Id, &other)
		case "garbage-jws":
			p.Owner = o.Id.DID()
			sig = saotypes.JwsSignature{Protected: "e30", Signature: "AAAA"}
		case "empty-jws":
			p.Owner = o.Id.DID()
			sig = saotypes.JwsSignature{}
		}
		m := &saotypes.MsgRenew{Creator: rel.Addr.String(), Proposal: p, JwsSignature: sig, Provider: provider}
		w.Deliver("renew", rel, meta, m)
	case "terminate":
		p := saotypes.TerminateProposal{Owner: ownerField.DID(), DataId: target}
		sig := actors.SignProposal(signer, &p)
		switch mut {
		case "payload-altered":
			p = saotypes.TerminateProposal{Owner: o.Id.DID(), DataId: "unrelated-data-id-unrelated-data-id-"}
			sig = actors.SignProposal(o.Id, &p)
			p.DataId = target
		case "replayed-signature":
			// a genuine owner signature over a different request (different bytes)
			pp := saotypes.PermissionProposal{Owner: o.Id.DID(), DataId: target, ReadonlyDids: []string{a.ro.Id.DID()}}
			sig = actors.SignProposal(o.Id, &pp)
			p = saotypes.TerminateProposal{Owner: o.Id.DID(), DataId: target}
		case "garbage-jws":
			p.Owner = o.Id.DID()
			sig = saotypes.JwsSignature{Protected: "e30", Signature: "AAAA"}
		case "empty-jws":
			p.Owner = o.Id.DID()
			sig = saotypes.JwsSignature{}
		}
		m := &saotypes.MsgTerminate{Creator: rel.Addr.String(), Proposal: p, JwsSignature: sig, Provider: provider}
		w.Deliver("terminate", rel, meta, m)
	case "permission":
		p := saotypes.PermissionProposal{Owner: ownerField.DID(), DataId: target, ReadonlyDids: []string{a.ro.Id.DID()}, ReadwriteDids: []string{a.rw.Id.DID(), a.stranger.Id.DID()}}
		if authorized {
			p.ReadwriteDids = []string{a.rw.Id.DID()}
			if a.w.Rng.Intn(2) == 0 {
				p.ReadonlyDids = []string{a.ro.Id.DID(), a.stranger.Id.DID()}
			}
		}
		sig := actors.SignProposal(signer, &p)
		switch mut {
		case "payload-altered":
			q := p
			q.Owner = o.Id.DID()
			q.ReadwriteDids = []string{a.rw.Id.DID()}
			sig = actors.SignProposal(o.Id, &q)
			p.Owner = o.Id.DID()
		case "replayed-signature":
			t := saotypes.TerminateProposal{Owner: o.Id.DID(), DataId: target}
			sig = actors.SignProposal(o.Id, &t)
			p.Owner = o.Id.DID()
		case "garbage-jws":
			p.Owner = o.Id.DID()
			sig = saotypes.JwsSignature{Protected: "e30", Signature: "AAAA"}
		case "empty-jws":
			p.Owner = o.Id.DID()
			sig = saotypes.JwsSignature{}
		}
		m := &saotypes.MsgUpdataPermission{Creator: rel.Addr.String(), Proposal: p, JwsSignature: sig, Provider: provider}
		w.Deliver("permission", rel, meta, m)
	}
	if w.C.InBlock && w.Rng.Intn(4) == 0 {
		w.EndBlock()
	}
}

var c09Mutations = []string{"none", "payload-altered", "replayed-signature", "garbage-jws", "empty-jws", "owner-field-victim", "kid-of-owner", "sid-version-confusion"}
var c09StoreMutations = []string{"commit-embeds-dataid", "commit-dataid-prefix", "commit-empty-base", "commit-separators", "commit-bare-latest", "commit-bare-new"}

func scnAuthz(ctx *check.JobCtx) {
	w := newLifeWorld(ctx, monitorsFor(ctx.Job.Prop)...)
	a := setupAuthz(w)
	if w.Halted() {
		w.Finish()
		return
	}
	rounds := int(ctx.ArgInt("rounds", 1))
	relayers := []relayer{{a.gw.Acct, "gateway"}, {a.gw.HotKeys[0], "hotkey"}, {a.gw2.Acct, "othergw"}, {a.nonNode, "nonnode"}}
	nrel := int(ctx.ArgInt("relayers", 2))
	for r := 0; r < rounds && !w.Halted(); r++ {
		for _, o := range []*world.Owner{a.owner, a.sowner} {
			// destructive kinds last; a fresh model per kind group
			for _, kinds := range [][]string{{"permission", "renew"}, {"update"}, {"forcepush"}, {"terminate"}} {
				target := a.newModel(o, int32(1+w.Rng.Intn(2)))
				if target == "" {
					continue
				}
				muts := c09Mutations
				if kinds[0] == "update" || kinds[0] == "forcepush" {
					muts = append(append([]string{}, c09Mutations...), c09StoreMutations...)
				}
				rl := relayers[:nrel]
				if r%2 == 1 {
					rl = relayers[4-nrel:]
				}
				a.probeAll(target, rl, muts, kinds)
				w.EndBlock()
			}
		}
	}
	if !w.Halted() {
		staleOrderOnRecreatedModel(a)
	}
	if !w.Halted() {
		revokedBeforeCompletion(a)
	}
	if !w.Halted() {
		renewAfterGranteeUpdate(a)
	}
	w.Sample("authz matrix: %d models probed, trace head: %s", len(a.models), traceSummary(w))
	w.Finish()
}
