package props

import (
	"bytes"
	"encoding/json"
	"fmt"
	"io"
	"sort"
	"strings"

	"saoverif/chain"
	"saoverif/check"
	"saoverif/mon"
	"saoverif/world"

	"github.com/SaoNetwork/sao/app"
	nodetypes "github.com/SaoNetwork/sao/x/node/types"
	saotypes "github.com/SaoNetwork/sao/x/sao/types"
	abci "github.com/tendermint/tendermint/abci/types"
)

var customStores = []string{"sao", "node", "order", "model", "did", "market"}

// keyClass maps a raw store key to its table prefix (first two path elements), e.g. "Fault/value/".
func keyClass(k string) string {
	parts := strings.SplitN(k, "/", 3)
	if len(parts) >= 3 {
		return parts[0] + "/" + parts[1] + "/"
	}
	return printable(k)
}

func printable(s string) string {
	b := []byte(s)
	for i, c := range b {
		if c < 32 || c > 126 {
			b[i] = '.'
		}
	}
	if len(b) > 40 {
		b = b[:40]
	}
	return string(b)
}

// diffStores compares raw stores and reports one violation per (store, table prefix, kind).
func diffStores(w *world.World, phase string, a, b map[string]map[string]string) int {
	n := 0
	for _, st := range customStores {
		ka, kb := a[st], b[st]
		keys := map[string]bool{}
		for k := range ka {
			keys[k] = true
		}
		for k := range kb {
			keys[k] = true
		}
		sorted := make([]string, 0, len(keys))
		for k := range keys {
			sorted = append(sorted, k)
		}
		sort.Strings(sorted)
		for _, k := range sorted {
			va, oka := ka[k]
			vb, okb := kb[k]
			n++
			switch {
			case oka && !okb:
				w.Violate("C18", fmt.Sprintf("missing-after-import:%s:%s", st, keyClass(k)), fmt.Sprintf("%s: store %s key %q exists on the original chain but not on the chain initialised from its export", phase, st, printable(k)), nil)
			case !oka && okb:
				w.Violate("C18", fmt.Sprintf("%s:extra-after-import:%s:%s", phase, st, keyClass(k)), fmt.Sprintf("%s: store %s key %q exists only on the re-initialised chain", phase, st, printable(k)), nil)
			case va != vb && st == "order" && k == "Order/count/" && orderCountEq(va, vb):
				// the order counter's getter reads a stored 0 as 1 (ids start at 1): 0 and 1 are the same observable state
			case va != vb:
				w.Violate("C18", fmt.Sprintf("%s:value-differs:%s:%s", phase, st, keyClass(k)), fmt.Sprintf("%s: store %s key %q differs between the original and the re-initialised chain", phase, st, printable(k)), nil)
			}
		}
	}
	return n
}

func moduleBalances(s *mon.State) map[string]string {
	out := map[string]string{}
	for a, n := range mon.ModuleAddrs {
		out[n] = s.BalOf(a).String()
	}
	return out
}

// scnGenesisRoundTrip: workload -> export -> import into a fresh app -> raw KV diff -> identical continuation on both.
func scnGenesisRoundTrip(ctx *check.JobCtx) {
	w := newLifeWorld(ctx, monitorsFor(ctx.Job.Prop)...)
	prof := ctx.Arg("profile", "mixed")
	p := lifeProfile(prof)
	p.Ops = int(ctx.ArgInt("ops", 35))
	p.Drain = false
	p.BlockReward = 1000
	p.Params = func(np *nodetypes.Params) { np.FishmenInfo = w.Acct("gw1").Addr.String() }
	p.PoorSP = ctx.Arg("debt", "") == "1"
	l := SetupLife(w, p)
	if w.Halted() {
		w.Finish()
		return
	}
	r := w.Rng
	if p.PoorSP {
		// deterministic prefix: a provider without liquid balance holds a shard whose renewal needs more collateral
		// than it has: a pledge-debt row exists at export time
		o := l.Owners[0]
		did := w.NewDataId()
		_, oid := w.Store(world.StoreReq{Owner: o.Id, Gateway: l.GW[0], DataId: did, CommitId: did, Duration: 4000, Replica: int32(len(l.SP)), Timeout: 300, Size: 1_000_000})
		w.CompleteAll(oid)
		w.EndBlock()
		w.Advance(int64(5 + r.Intn(100)))
		w.Renew(o.Id, nil, l.GW[0].Acct, "", 60*60*24*30, 300, nil, did)
		w.EndBlock()
		w.Case("c18:recipe:debt-rows=%d", minInt(len(w.Cur.Debts), 3))
	}
	// a fishman (the second gateway) so that fault rows and fishing rewards exist at export time
	fishman := l.GW[1].Acct
	withFaults := ctx.Arg("faults", "1") == "1"
	reportSome := func() {
		if !withFaults {
			return
		}
		for _, sh := range sortedShards(w.Cur) {
			if sh.Status != ShardCompleted || r.Intn(2) == 0 {
				continue
			}
			o, ok := w.Cur.Orders[sh.OrderId]
			if !ok {
				continue
			}
			f := &saotypes.Fault{DataId: o.DataId, OrderId: o.Id, ShardId: sh.Id, CommitId: "x", Provider: sh.Sp, Reporter: fishman.Addr.String()}
			w.Deliver("report-faults", fishman, nil, &saotypes.MsgReportFaults{Creator: fishman.Addr.String(), Provider: sh.Sp, Faults: []*saotypes.Fault{f}})
			if r.Intn(2) == 0 {
				if pr := w.ProviderByAddr(sh.Sp); pr != nil {
					f2 := *f
					f2.CommitId = o.Commit
					w.Deliver("recover-faults", pr.Acct, nil, &saotypes.MsgRecoverFaults{Creator: pr.Acct.Addr.String(), Provider: sh.Sp, Faults: []*saotypes.Fault{&f2}})
					w.Deliver("recover-faults", fishman, nil, &saotypes.MsgRecoverFaults{Creator: fishman.Addr.String(), Provider: sh.Sp, Faults: []*saotypes.Fault{&f2}})
				}
			}
			break
		}
	}
	if ctx.Arg("recipe", "") == "1" {
		// deterministic prefix: a stored model, a fault that is reported, declared recovered by the provider and
		// confirmed recovered by the fishman (leaves fishing-reward rows), and a second fault left open
		o := l.Owners[0]
		for k := 0; k < 2; k++ {
			did := w.NewDataId()
			_, oid := w.Store(world.StoreReq{Owner: o.Id, Gateway: l.GW[0], DataId: did, CommitId: did, Duration: 3700, Replica: 2, Timeout: 300, Size: 1_000_000})
			w.CompleteAll(oid)
			w.EndBlock()
			if od, ok := w.Cur.Orders[oid]; ok && len(od.Shards) > 0 {
				sh := w.Cur.Shards[od.Shards[0]]
				f := &saotypes.Fault{DataId: did, OrderId: oid, ShardId: sh.Id, CommitId: "x", Provider: sh.Sp, Reporter: fishman.Addr.String()}
				w.Deliver("report-faults", fishman, nil, &saotypes.MsgReportFaults{Creator: fishman.Addr.String(), Provider: sh.Sp, Faults: []*saotypes.Fault{f}})
				if k == 0 {
					if pr := w.ProviderByAddr(sh.Sp); pr != nil {
						f2 := *f
						f2.CommitId = od.Commit
						w.Deliver("recover-faults", pr.Acct, nil, &saotypes.MsgRecoverFaults{Creator: pr.Acct.Addr.String(), Provider: sh.Sp, Faults: []*saotypes.Fault{&f2}})
						w.Deliver("recover-faults", fishman, nil, &saotypes.MsgRecoverFaults{Creator: fishman.Addr.String(), Provider: sh.Sp, Faults: []*saotypes.Fault{&f2}})
					}
				}
				w.EndBlock()
			}
		}
	}
	for i := 0; i < p.Ops && !w.Halted(); i++ {
		l.Step()
		if i%9 == 5 {
			reportSome()
		}
	}
	if w.C.InBlock {
		w.EndBlock()
	}
	if w.Halted() {
		w.Finish()
		return
	}
	// ---- export
	orig := w.C
	var exported []byte
	var initialHeight int64
	var cp *abci.ConsensusParams
	var expErr error
	halt := orig.Guard("ExportAppStateAndValidators", func() {
		ex, err := orig.App.ExportAppStateAndValidators(false, nil)
		expErr = err
		exported, initialHeight, cp = ex.AppState, ex.Height, ex.ConsensusParams
	})
	w.Count("evaluations", 1)
	if halt != nil {
		w.Violate("C18", "export-panicked", "export panicked: "+halt.Msg, halt.Stack)
		w.Finish()
		return
	}
	if expErr != nil {
		w.Violate("C18", "export-failed", "export failed: "+expErr.Error(), nil)
		w.Finish()
		return
	}
	var gs map[string]json.RawMessage
	if err := json.Unmarshal(exported, &gs); err != nil {
		w.Violate("C18", "export-not-json", err.Error(), nil)
		w.Finish()
		return
	}
	enc := chain.Encoding()
	if err := app.ModuleBasics.ValidateGenesis(enc.Marshaler, enc.TxConfig, gs); err != nil {
		w.Violate("C18", "exported-genesis-rejected-by-validation:"+firstN(strings.Map(func(r rune) rune {
			if r >= '0' && r <= '9' {
				return -1
			}
			return r
		}, err.Error()), 60), "the exported genesis does not pass ValidateGenesis: "+err.Error(), nil)
	}
	origRaw := mon.RawStores(orig, customStores...)
	origBal := moduleBalances(w.Cur)

	// ---- import into a fresh application
	imp := chain.New(chain.Options{})
	_, halt = imp.InitChainReq(abci.RequestInitChain{Time: chain.BlockTime(initialHeight - 1), ChainId: chain.ChainID, ConsensusParams: cp, AppStateBytes: exported, InitialHeight: initialHeight})
	if halt != nil {
		w.Violate("C18", "import-panicked:"+firstN(halt.Msg, 50), "InitChain with the exported genesis panicked: "+halt.Msg, firstN(halt.Stack, 3000))
		if ctx.Job.Prop == "C02" {
			w.Halt = halt // re-genesis from an exported state is part of C02's quantifier
		}
		w.Finish()
		return
	}
	imp.InBlock = true // the state written by InitChain is in the deliver state until the first commit
	imp.Header.Height = initialHeight - 1
	impRaw := mon.RawStores(imp, customStores...)
	impState := mon.Snapshot(imp)
	imp.InBlock = false
	n := diffStores(w, "import", origRaw, impRaw)
	w.Count("c18.kv_pairs_compared", int64(n))
	ib := moduleBalances(impState)
	for m, v := range origBal {
		if ib[m] != v {
			w.Violate("C18", "import:module-balance-differs:"+m, fmt.Sprintf("module account %s holds %s on the original chain and %s after import", m, v, ib[m]), nil)
		}
	}
	nf, nr := 0, 0
	for k := range origRaw["node"] {
		if strings.HasPrefix(k, "Fault/") {
			nf++
		}
		if strings.HasPrefix(k, "FishingReward/") {
			nr++
		}
	}
	w.Case("c18:export:orders=%d,shards=%d,metas=%d,timeouts=%d,expiries=%d,debts=%d,faults=%v,fishing=%v,inflight=%v", bucket(len(w.Cur.Orders)), bucket(len(w.Cur.Shards)), bucket(len(w.Cur.Metas)),
		bucket(len(w.Cur.Timeouts)), bucket(len(w.Cur.ExpShards)), bucket(len(w.Cur.Debts)), nf > 0, nr > 0, inflight(w.Cur))

	// ---- continuation: the same blocks and transactions on both chains
	var reqBuf bytes.Buffer
	orig.SetLogs(&reqBuf, nil)
	cont := int(ctx.ArgInt("cont", 25))
	l.P.Drain = false
	for i := 0; i < cont && !w.Halted(); i++ {
		l.Step()
	}
	if ctx.Arg("drain", "") == "1" {
		last := l.lastScheduled()
		if int64(last) > w.C.Height && int64(last) < w.C.Height+12000 {
			w.AdvanceTo(int64(last) + 1)
		}
	}
	if w.C.InBlock {
		w.EndBlock()
	}
	orig.SetLogs(nil, nil)
	var origCodes, impCodes []string
	rd := bytes.NewReader(reqBuf.Bytes())
	for {
		b, err := chain.ReadFramed(rd)
		if err == io.EOF || err != nil {
			break
		}
		var rq abci.Request
		if rq.Unmarshal(b) != nil {
			break
		}
		var h *chain.Halt
		switch v := rq.Value.(type) {
		case *abci.Request_BeginBlock:
			_, h = imp.BeginBlockReq(*v.BeginBlock)
		case *abci.Request_DeliverTx:
			var res abci.ResponseDeliverTx
			res, h = imp.DeliverTx(v.DeliverTx.Tx)
			impCodes = append(impCodes, fmt.Sprintf("%s/%d/%d", res.Codespace, res.Code, len(res.Events)))
		case *abci.Request_EndBlock:
			_, h = imp.EndBlock()
		case *abci.Request_Commit:
			_, h = imp.Commit()
		}
		if h != nil {
			w.Violate("C18", "continuation-halted-on-imported-chain:"+h.Call, fmt.Sprintf("the chain initialised from the export halted at height %d where the original did not: %s", h.Height, h.Msg), firstN(h.Stack, 3000))
			if ctx.Job.Prop == "C02" {
				w.Halt = h
			}
			w.Finish()
			return
		}
	}
	for _, t := range w.Trace[len(w.Trace)-minInt(len(w.Trace), 0):] {
		_ = t
	}
	_ = origCodes
	if imp.Height != orig.Height {
		ctx.Res.Inconclusive += fmt.Sprintf("continuation heights differ (%d vs %d); ", orig.Height, imp.Height)
	}
	n2 := diffStores(w, "continuation", mon.RawStores(orig, customStores...), mon.RawStores(imp, customStores...))
	w.Count("c18.kv_pairs_compared", int64(n2))
	fin := moduleBalances(mon.Snapshot(imp))
	for m, v := range moduleBalances(w.Cur) {
		if fin[m] != v {
			w.Violate("C18", "continuation:module-balance-differs:"+m, fmt.Sprintf("after the same %d blocks module account %s holds %s on the original chain and %s on the re-initialised one", orig.Height-initialHeight+1, m, v, fin[m]), nil)
		}
	}
	w.Count("c18.continuation_blocks", orig.Height-initialHeight+1)
	w.Count("c18.continuation_txs", int64(len(impCodes)))
	w.Sample("export at height %d (%d orders, %d shards, %d fault keys), continuation %d blocks / %d txs; %s", initialHeight-1, len(w.Cur.Orders), len(w.Cur.Shards), nf, orig.Height-initialHeight+1, len(impCodes), traceSummary(w))
	w.Finish()
}

func inflight(s *mon.State) bool {
	for _, o := range s.Orders {
		if o.Status != OrderCompleted {
			return true
		}
	}
	return false
}

func orderCountEq(a, b string) bool {
	dec := func(v string) uint64 {
		if len(v) != 8 {
			return ^uint64(0)
		}
		var n uint64
		for i := 0; i < 8; i++ {
			n = n<<8 | uint64(v[i])
		}
		if n == 0 {
			n = 1
		}
		return n
	}
	return dec(a) == dec(b) && dec(a) != ^uint64(0)
}
