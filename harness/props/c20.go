package props

import (
	"fmt"

	"saoverif/actors"
	"saoverif/chain"
	"saoverif/check"
	"saoverif/world"

	nodetypes "github.com/SaoNetwork/sao/x/node/types"
	codectypes "github.com/cosmos/cosmos-sdk/codec/types"
	sdk "github.com/cosmos/cosmos-sdk/types"
	stakingtypes "github.com/cosmos/cosmos-sdk/x/staking/types"
)

const superRequirement = uint32(1 | 2 | 4 | 8) // online, gateway, storage, accepting orders

// C20: the super role is held only while the pledge and validator-stake requirements hold.
type C20 struct {
	threshold sdk.Dec
	vstorage  int64
	have      bool
	checks    int64
	promos    int64
	demos     int64
}

func (m *C20) ID() string { return "C20" }
func (m *C20) Done(w *world.World) {
	w.Count("c20.role_predicate_evaluations", m.checks)
	w.Count("c20.promotions", m.promos)
	w.Count("c20.demotions", m.demos)
}

func (m *C20) load(w *world.World) {
	if m.have {
		return
	}
	ctx := w.C.Ctx()
	m.threshold = w.C.App.NodeKeeper.ShareThreshold(ctx)
	m.vstorage = w.C.App.NodeKeeper.VstorageThreshold(ctx)
	m.have = true
}

// stakeRatio returns the node's own delegation share in its declared validator (ok=false when there is none).
func stakeRatio(w *world.World, node nodetypes.Node) (sdk.Dec, bool) {
	ctx := w.C.Ctx()
	if node.Validator == "" {
		return sdk.ZeroDec(), false
	}
	val, err := sdk.ValAddressFromBech32(node.Validator)
	if err != nil {
		return sdk.ZeroDec(), false
	}
	acc, err := sdk.AccAddressFromBech32(node.Creator)
	if err != nil {
		return sdk.ZeroDec(), false
	}
	del, found := w.C.App.StakingKeeper.GetDelegation(ctx, acc, val)
	if !found {
		return sdk.ZeroDec(), false
	}
	v, found := w.C.App.StakingKeeper.GetValidator(ctx, val)
	if !found || v.DelegatorShares.IsZero() {
		return sdk.ZeroDec(), false
	}
	return del.Shares.Quo(v.DelegatorShares), true
}

func (m *C20) predicate(w *world.World, where string) {
	m.load(w)
	for _, n := range w.Cur.Nodes {
		if n.Role != nodetypes.NODE_SUPER {
			continue
		}
		m.checks++
		pl, ok := w.Cur.Pledges[n.Creator]
		if !ok || pl.TotalStorage < m.vstorage {
			w.Violate("C20", "super-without-capacity", fmt.Sprintf("%s: node %s holds the super role with pledged capacity %d below the threshold %d", where, shortAddr(n.Creator), pl.TotalStorage, m.vstorage), nil)
		}
		r, ok := stakeRatio(w, n)
		if !ok || r.LT(m.threshold) {
			w.Violate("C20", "super-without-stake", fmt.Sprintf("%s: node %s holds the super role but its own delegation to %s is %s of the validator's shares (threshold %s)", where, shortAddr(n.Creator), n.Validator, r, m.threshold), nil)
		}
	}
}

func (m *C20) Tx(w *world.World, e *world.TxEvent) {
	if e.Pre == nil || e.Post == nil {
		return
	}
	m.predicate(w, fmt.Sprintf("after tx %s (ok=%v)", e.Kind, e.OK))
	for a, n := range e.Post.Nodes {
		p, had := e.Pre.Nodes[a]
		if !had {
			continue
		}
		if p.Role != nodetypes.NODE_SUPER && n.Role == nodetypes.NODE_SUPER {
			m.promos++
			w.Case("c20:promoted-by:%s", e.Kind)
			if n.Status&superRequirement != superRequirement {
				w.Violate("C20", "promoted-without-full-status:"+e.Kind, fmt.Sprintf("tx %s promoted node %s whose declared status is %d", e.Kind, shortAddr(a), n.Status), nil)
			}
		}
		if p.Role == nodetypes.NODE_SUPER && n.Role != nodetypes.NODE_SUPER {
			m.demos++
			w.Case("c20:demoted-by:%s", e.Kind)
		}
	}
	if msg, ok := e.Msg.(*nodetypes.MsgReset); ok && e.OK {
		if n, ok := e.Post.Nodes[msg.Creator]; ok && n.Role == nodetypes.NODE_SUPER && n.Status&superRequirement != superRequirement {
			w.Violate("C20", "super-after-reset-without-full-status", fmt.Sprintf("node %s reset its status to %d and still holds the super role", shortAddr(msg.Creator), n.Status), nil)
		}
	}
	if e.OK {
		switch e.Kind {
		case "delegate", "undelegate", "redelegate", "create-validator", "remove-vstorage", "add-vstorage", "node-reset":
			supers := 0
			for _, n := range e.Post.Nodes {
				if n.Role == nodetypes.NODE_SUPER {
					supers++
				}
			}
			w.Case("c20:%s:supers=%d", e.Kind, supers)
		}
	} else if e.Kind == "delegate" || e.Kind == "undelegate" || e.Kind == "redelegate" {
		w.Case("c20:failed-%s", e.Kind)
	}
}

func (m *C20) Block(w *world.World, e *world.BlockEvent) {
	m.predicate(w, "block boundary")
	for a, n := range e.Post.Nodes {
		if p, had := e.PreEnd.Nodes[a]; had && p.Role != nodetypes.NODE_SUPER && n.Role == nodetypes.NODE_SUPER {
			w.Case("c20:promoted-by:endblock")
			if n.Status&superRequirement != superRequirement {
				w.Violate("C20", "promoted-without-full-status:endblock", fmt.Sprintf("end block promoted node %s whose declared status is %d", shortAddr(a), n.Status), nil)
			}
		}
	}
}

// ---------------------------------------------------------------- staking ops

func coin(n int64) sdk.Coin { return sdk.NewInt64Coin(chain.Denom, n) }

func delegateMsg(d *actors.Account, v sdk.ValAddress, amt int64) sdk.Msg {
	return stakingtypes.NewMsgDelegate(d.Addr, v, coin(amt))
}

func createValidatorMsg(a *actors.Account, amt int64) sdk.Msg {
	pk := chain.ConsKey("cv-" + a.Name).PubKey()
	any, _ := codectypes.NewAnyWithValue(pk)
	return &stakingtypes.MsgCreateValidator{
		Description:       stakingtypes.Description{Moniker: a.Name},
		Commission:        stakingtypes.NewCommissionRates(sdk.ZeroDec(), sdk.OneDec(), sdk.OneDec()),
		MinSelfDelegation: sdk.OneInt(),
		DelegatorAddress:  a.Addr.String(),
		ValidatorAddress:  sdk.ValAddress(a.Addr).String(),
		Pubkey:            any,
		Value:             coin(amt),
	}
}

func scnStaking(ctx *check.JobCtx) {
	w := newLifeWorld(ctx, monitorsFor(ctx.Job.Prop)...)
	r := w.Rng
	var funded []*actors.Account
	nodes := []*actors.Account{w.Acct("n0"), w.Acct("n1"), w.Acct("n2"), w.Acct("n3")}
	dels := []*actors.Account{w.Acct("d0"), w.Acct("d1")}
	valOps := []*actors.Account{w.Acct("vop1"), w.Acct("vop2")}
	funded = append(funded, nodes...)
	funded = append(funded, dels...)
	funded = append(funded, valOps...)
	np := chain.DefaultNodeParams()
	np.OfflineTriggerHeight = int64(ctx.ArgInt("offline", 1_000_000))
	gen := w.StandardGenesis(np, funded, 2_000_000_000, func(s *chain.GenesisSpec) { s.UnbondingTime = 60_000_000_000; s.MaxValidators = 3 })
	if err := w.Init(gen, 1); err != nil {
		w.Finish()
		return
	}
	vals := []sdk.ValAddress{sdk.ValAddress(w.Acct("val0").Addr)}
	w.Providers = nil
	for _, n := range nodes {
		w.CreateNode(n)
		w.AddVstorage(n, uint64(9_000_000+r.Intn(3)*1_000_000))
		w.ResetNode(n, world.StatusAll, nil, "")
		w.Providers = append(w.Providers, &world.Provider{Acct: n})
	}
	// with stores=1 the nodes also serve storage orders: the super-node round robin moves while roles change
	withStores := ctx.Arg("stores", "") == "1"
	var gw *world.Provider
	var owner *world.Owner
	if withStores {
		sp := w.Providers
		gw = w.SetupProvider(w.Acct("d0"), 0)
		w.Providers = sp
		owner = &world.Owner{Id: actors.NewKeyDid("stk-owner"), Pay: w.Acct("d1")}
		w.SetKeyDidPayment(owner.Id.(*actors.KeyDid), owner.Pay)
	}
	w.EndBlock()
	if withStores {
		// deterministic prefix: the super-node round robin advances, the super nodes it points past are demoted, a
		// store fails after the selection ran (uncommitted cursor write), the super nodes come back, a store follows
		v0 := vals[0]
		for _, n := range nodes[:3] {
			w.AddVstorage(n, 3_000_000)
			w.Deliver("delegate", n, nil, delegateMsg(n, v0, 40_000_000))
		}
		w.EndBlock()
		store := func(dur uint64) {
			did := w.NewDataId()
			size := uint64(1000)
			if dur > 1<<30 {
				size = 1_000_000 // the price exceeds any balance: the store fails after the selection
			}
			w.Store(world.StoreReq{Owner: owner.Id, Gateway: gw, DataId: did, CommitId: did, Duration: dur, Replica: 1, Timeout: 30, Size: size})
		}
		store(3600)
		store(3600)
		w.EndBlock()
		for _, n := range nodes[1:3] {
			w.Deliver("undelegate", n, nil, stakingtypes.NewMsgUndelegate(n.Addr, v0, coin(40_000_000)))
		}
		w.EndBlock()
		store(1 << 40) // selection runs, then the payment fails
		w.EndBlock()
		for _, n := range nodes[1:3] {
			w.Deliver("delegate", n, nil, delegateMsg(n, v0, 40_000_000))
		}
		w.EndBlock()
		store(3600)
		store(3600)
		w.EndBlock()
		supers := 0
		for _, n := range w.Cur.Nodes {
			if n.Role == nodetypes.NODE_SUPER {
				supers++
			}
		}
		w.Case("c20:cursor-recipe:supers-at-end=%d", supers)
		// a super node re-declares a validator it has no stake in, with a reset that carries no status
		op := valOps[0]
		if e := w.Deliver("create-validator", op, nil, createValidatorMsg(op, 150_000_000)); e.OK {
			vals = append(vals, sdk.ValAddress(op.Addr))
			w.EndBlock()
			for _, n := range nodes[:2] {
				w.ResetNode(n, 0, nil, sdk.ValAddress(op.Addr).String())
			}
			w.EndBlock()
			// and back, with the full status again
			for _, n := range nodes[:2] {
				w.ResetNode(n, world.StatusAll, nil, v0.String())
			}
			w.EndBlock()
		}
	}
	if !w.Halted() {
		// threshold recipe: a node sits just above the share threshold; an existing delegator tops up, then a
		// brand-new delegator dilutes the node below the threshold; later the reverse (undelegation lifts it back)
		v0 := vals[0]
		n := nodes[3]
		w.AddVstorage(n, 3_000_000)
		val, _ := w.C.App.StakingKeeper.GetValidator(w.C.Ctx(), v0)
		total := val.Tokens.Int64()
		// after the two delegations of d0 (800 000) the node is still at >= 10 %; the 150 000 of a brand-new
		// delegator push it just below
		own := (total+800_000)/9 + 5_000
		w.Deliver("delegate", n, nil, delegateMsg(n, v0, own))
		w.ResetNode(n, world.StatusAll, nil, "")
		w.EndBlock()
		d0, d1 := dels[0], dels[1]
		w.Deliver("delegate", d0, nil, delegateMsg(d0, v0, 500_000))
		w.EndBlock()
		w.Deliver("delegate", d0, nil, delegateMsg(d0, v0, 300_000)) // top-up of an existing delegation
		w.EndBlock()
		fresh := w.Acct("vop2")
		if _, isVal := w.C.App.StakingKeeper.GetValidator(w.C.Ctx(), sdk.ValAddress(fresh.Addr)); !isVal {
			w.Deliver("delegate", fresh, nil, delegateMsg(fresh, v0, 150_000)) // first delegation of a new delegator
		}
		w.Deliver("delegate", d1, nil, delegateMsg(d1, v0, total/50))
		w.EndBlock()
		w.Deliver("undelegate", d1, nil, stakingtypes.NewMsgUndelegate(d1.Addr, v0, coin(total/50)))
		w.Deliver("undelegate", n, nil, stakingtypes.NewMsgUndelegate(n.Addr, v0, coin(own)))
		w.EndBlock()
		w.Case("c20:threshold-recipe")
	}
	if ctx.Arg("slash", "") == "1" && !w.Halted() {
		// slashed-validator recipe: a second validator double-signs (slashed, jailed: tokens < shares); a node
		// declares it and delegates to just BELOW the share threshold counted in shares, is lifted above it, and
		// is then diluted by a third party to just below again
		op := valOps[1]
		v1 := sdk.ValAddress(op.Addr)
		if _, exists := w.C.App.StakingKeeper.GetValidator(w.C.Ctx(), v1); !exists {
			if e := w.Deliver("create-validator", op, nil, createValidatorMsg(op, 150_000_000)); e.OK {
				vals = append(vals, v1)
			}
		}
		w.EndBlock()
		w.Advance(1)
		if val, ok := w.C.App.StakingKeeper.GetValidator(w.C.Ctx(), v1); ok && val.IsBonded() && len(w.C.Vals) >= 2 {
			cons, _ := val.GetConsAddr()
			w.C.Equivocate(cons, val.ConsensusPower(sdk.DefaultPowerReduction))
			w.Advance(2)
			val, _ = w.C.App.StakingKeeper.GetValidator(w.C.Ctx(), v1)
			slashed := sdk.NewDecFromInt(val.Tokens).LT(val.DelegatorShares)
			n := nodes[2]
			w.AddVstorage(n, 3_000_000)
			// drop whatever the node holds there, then rebuild its delegation to the wanted fraction of the shares
			target := func(frac sdk.Dec) {
				val, _ := w.C.App.StakingKeeper.GetValidator(w.C.Ctx(), v1)
				own := sdk.ZeroDec()
				if d, ok := w.C.App.StakingKeeper.GetDelegation(w.C.Ctx(), n.Addr, v1); ok {
					own = d.Shares
				}
				others := val.DelegatorShares.Sub(own)
				// own'/(others+own') = frac  =>  own' = frac*others/(1-frac)
				want := frac.Mul(others).Quo(sdk.OneDec().Sub(frac))
				if want.GT(own) {
					tokens := val.TokensFromShares(want.Sub(own)).TruncateInt()
					if tokens.IsPositive() {
						w.Deliver("delegate", n, nil, delegateMsg(n, v1, tokens.Int64()))
					}
				}
			}
			thr := sdk.MustNewDecFromStr(w.C.App.NodeKeeper.GetParams(w.C.Ctx()).ShareThreshold)
			w.ResetNode(n, world.StatusAll, nil, v1.String())
			target(thr.Mul(sdk.MustNewDecFromStr("0.97")))
			w.ResetNode(n, world.StatusAll, nil, v1.String())
			w.EndBlock()
			target(thr.Mul(sdk.MustNewDecFromStr("1.2")))
			w.EndBlock()
			// third-party dilution to 0.98 x threshold
			val, _ = w.C.App.StakingKeeper.GetValidator(w.C.Ctx(), v1)
			if d, ok := w.C.App.StakingKeeper.GetDelegation(w.C.Ctx(), n.Addr, v1); ok {
				wantTotal := d.Shares.Quo(thr.Mul(sdk.MustNewDecFromStr("0.98")))
				if wantTotal.GT(val.DelegatorShares) {
					tokens := val.TokensFromShares(wantTotal.Sub(val.DelegatorShares)).TruncateInt()
					w.Deliver("delegate", dels[1], nil, delegateMsg(dels[1], v1, tokens.Int64()))
				}
			}
			w.EndBlock()
			w.Case("c20:slashed-validator-recipe:slashed=%v", slashed)
		} else {
			w.Case("c20:slashed-validator-recipe:not-reached")
		}
	}
	ops := int(ctx.ArgInt("ops", 150))
	amounts := []int64{1, 1_000_000, 9_000_000, 11_111_111, 25_000_000, 120_000_000, 400_000_000, 5_000_000_000}
	for i := 0; i < ops && !w.Halted(); i++ {
		n := nodes[r.Intn(len(nodes))]
		v := vals[r.Intn(len(vals))]
		who := n
		if r.Intn(3) == 0 {
			who = dels[r.Intn(len(dels))]
		}
		amt := amounts[r.Intn(len(amounts))]
		pick := r.Intn(14)
		if withStores && r.Intn(3) == 0 {
			pick = 14 + r.Intn(3)
		}
		switch pick {
		case 14:
			// a store: moves the super-node cursor; replica counts up to more than the network can serve (fails after selection)
			did := w.NewDataId()
			_, oid := w.Store(world.StoreReq{Owner: owner.Id, Gateway: gw, DataId: did, CommitId: did, Duration: 3600, Replica: int32(1 + r.Intn(5)), Timeout: int32(10 + r.Intn(40)), Size: uint64(1 + r.Intn(2_000_000))})
			if oid != 0 && r.Intn(2) == 0 {
				w.CompleteAll(oid)
			}
		case 15:
			// a store that fails after providers were selected (the price exceeds the payer's balance)
			did := w.NewDataId()
			w.Store(world.StoreReq{Owner: owner.Id, Gateway: gw, DataId: did, CommitId: did, Duration: 1 << 40, Replica: int32(1 + r.Intn(2)), Timeout: 20, Size: 1_000_000})
		case 16:
			w.Advance(int64(5 + r.Intn(60)))
		case 0, 1, 2:
			w.Deliver("delegate", who, nil, delegateMsg(who, v, amt))
		case 3, 4:
			w.Deliver("undelegate", who, nil, stakingtypes.NewMsgUndelegate(who.Addr, v, coin(amt)))
		case 5:
			// full undelegation of whatever is there
			if d, ok := w.C.App.StakingKeeper.GetDelegation(w.C.Ctx(), who.Addr, v); ok {
				val, _ := w.C.App.StakingKeeper.GetValidator(w.C.Ctx(), v)
				tokens := val.TokensFromShares(d.Shares).TruncateInt()
				if tokens.IsPositive() {
					w.Deliver("undelegate", who, nil, stakingtypes.NewMsgUndelegate(who.Addr, v, sdk.NewCoin(chain.Denom, tokens)))
				}
			}
		case 6:
			v2 := vals[r.Intn(len(vals))]
			if !v2.Equals(v) {
				w.Deliver("redelegate", who, nil, stakingtypes.NewMsgBeginRedelegate(who.Addr, v, v2, coin(amt)))
			}
		case 7:
			if len(vals) < 3 {
				op := valOps[len(vals)-1]
				if _, exists := w.C.App.StakingKeeper.GetValidator(w.C.Ctx(), sdk.ValAddress(op.Addr)); exists {
					op = valOps[1]
				}
				if e := w.Deliver("create-validator", op, nil, createValidatorMsg(op, []int64{50_000_000, 150_000_000}[r.Intn(2)])); e.OK {
					vals = append(vals, sdk.ValAddress(op.Addr))
				}
			} else {
				// a validator operator withdraws (part of) its self delegation: validator may leave the set
				op := valOps[r.Intn(len(valOps))]
				w.Deliver("undelegate", op, nil, stakingtypes.NewMsgUndelegate(op.Addr, sdk.ValAddress(op.Addr), coin([]int64{10_000_000, 49_999_999, 50_000_000, 150_000_000}[r.Intn(4)])))
			}
		case 8:
			w.AddVstorage(n, []uint64{1, 999_999, 1_000_000, 2_000_001}[r.Intn(4)])
		case 9:
			w.RemoveVstorage(n, []uint64{1_000_000, 1_000_001, 2_000_000, 3_500_000}[r.Intn(4)])
		case 10:
			st := []uint32{world.StatusAll, world.StatusAll, 1 | 4 | 8, 1, 0, 1 | 2 | 4 | 8 | 32}[r.Intn(6)]
			valStr := ""
			if r.Intn(2) == 0 {
				valStr = v.String()
			}
			w.ResetNode(n, st, nil, valStr)
		case 11:
			// a staking transaction that fails after the shares hook ran: delegate more than the balance
			bal := w.Cur.BalOf(who.Addr.String())
			w.Deliver("delegate", who, nil, delegateMsg(who, v, bal.Int64()+1+int64(r.Intn(1000))))
		case 12:
			// out of gas in the middle of a staking message
			gas := uint64(60_000 + r.Intn(120_000))
			w.DeliverGas("delegate", who, nil, gas, delegateMsg(who, v, amt))
		case 13:
			w.Advance(int64(1 + r.Intn(30)))
		}
		if r.Intn(3) == 0 && w.C.InBlock {
			w.EndBlock()
		}
	}
	w.Advance(2)
	w.Sample("staking/role walk: %s", traceSummary(w))
	w.Finish()
}
