package props

import (
	"fmt"
	"os"
	"path/filepath"
	"sort"
	"strings"

	"saoverif/actors"
	"saoverif/chain"
	"saoverif/check"
	"saoverif/world"

	nodetypes "github.com/SaoNetwork/sao/x/node/types"
	sdk "github.com/cosmos/cosmos-sdk/types"
)

// LifeParams tunes the order-lifecycle random walk.
type LifeParams struct {
	Providers   int
	Capacity    uint64
	Ops         int
	MaxHeight   int64
	BlockReward int64
	Silence     float64 // probability that an assigned provider does not complete when asked
	Weights     map[string]int
	BigTimeout  bool  // allow timeout >= duration/2 (reaches the known give-up defect)
	PoorSP      bool  // one provider has almost no liquid balance (debt paths)
	Drain       bool  // at the end advance past every scheduled height
	DrainCap    int64 // do not drain beyond this height (0 = no cap)
	DrainAll    bool  // afterwards cancel / terminate / claim / withdraw everything
	Params      func(p *nodetypes.Params)
	StartAge    uint // halving age the chain starts in (cumulative reward preset in genesis, as after an export)
}

func DefaultLife() LifeParams {
	return LifeParams{Providers: 5, Capacity: 60_000_000, Ops: 60, MaxHeight: 9000, Silence: 0.1, Drain: true,
		Weights: map[string]int{"store": 10, "complete": 14, "update": 5, "forcepush": 2, "renew": 6, "terminate": 4, "cancel": 3,
			"migrate": 4, "claim": 5, "addv": 2, "removev": 2, "advance": 14, "jump": 8, "reset": 2}}
}

type lifeModel struct {
	dataId  string
	owner   *world.Owner
	sponsor *world.Owner
	version int
}

// Life is the state of one lifecycle walk.
type Life struct {
	W       *world.World
	P       LifeParams
	GW      []*world.Provider
	SP      []*world.Provider
	Owners  []*world.Owner
	Sponsor *world.Owner
	Models  []*lifeModel
	byData  map[string]*lifeModel
}

var lifeSizes = []uint64{1, 250_000, 999_999, 1_000_000, 1_000_001, 2_777_777, 5_000_000}

// SetupLife builds the genesis and the population.
func SetupLife(w *world.World, p LifeParams) *Life {
	l := &Life{W: w, P: p, byData: map[string]*lifeModel{}}
	var funded []*actors.Account
	gwA := []*actors.Account{w.Acct("gw0"), w.Acct("gw1")}
	funded = append(funded, gwA...)
	funded = append(funded, w.Acct("gw0-hot"))
	var spA []*actors.Account
	for i := 0; i < p.Providers; i++ {
		a := w.Acct(fmt.Sprintf("sp%d", i))
		spA = append(spA, a)
		funded = append(funded, a)
	}
	for _, n := range []string{"alice", "bob", "carol", "sponsor"} {
		funded = append(funded, w.Acct("pay-"+n))
	}
	np := chain.DefaultNodeParams()
	np.BlockReward = sdk.NewInt64Coin(chain.Denom, p.BlockReward)
	np.OfflineTriggerHeight = 1_000_000
	if p.Params != nil {
		p.Params(&np)
	}
	var mut func(*chain.GenesisSpec)
	if p.StartAge > 0 {
		total, _ := sdk.NewIntFromString("400000000000000")
		mut = func(s *chain.GenesisSpec) { s.PoolTotalReward = total.Sub(total.Quo(sdk.NewInt(1 << p.StartAge))) }
	}
	gen := w.StandardGenesis(np, funded, 10_000_000_000, mut)
	if err := w.Init(gen, 1); err != nil {
		return l
	}
	l.GW = append(l.GW, w.SetupProvider(gwA[0], 0, w.Acct("gw0-hot")), w.SetupProvider(gwA[1], 0))
	for _, a := range spA {
		l.SP = append(l.SP, w.SetupProvider(a, p.Capacity))
	}
	// gateways are not storage providers
	w.Providers = append([]*world.Provider{}, l.SP...)
	l.Owners = append(l.Owners, w.NewKeyOwner("alice"), w.NewKeyOwner("bob"))
	w.EndBlock()
	l.Owners = append(l.Owners, w.NewSidOwner("carol"))
	l.Sponsor = w.NewKeyOwner("sponsor")
	w.Owners = l.Owners
	w.EndBlock()
	if p.PoorSP && len(l.SP) > 0 {
		poor := l.SP[0].Acct
		bal := w.Cur.BalOf(poor.Addr.String())
		if bal.GT(sdk.NewInt(2000)) {
			w.Send(poor, w.Acct("pay-alice").Addr, bal.SubRaw(1500).Int64())
		}
		w.EndBlock()
	}
	return l
}

func (l *Life) pickWeighted() string {
	keys := make([]string, 0, len(l.P.Weights))
	tot := 0
	for k, v := range l.P.Weights {
		if v > 0 {
			keys = append(keys, k)
			tot += v
		}
	}
	sort.Strings(keys)
	r := l.W.Rng.Intn(tot)
	for _, k := range keys {
		r -= l.P.Weights[k]
		if r < 0 {
			return k
		}
	}
	return keys[0]
}

func (l *Life) gateway() (*world.Provider, *actors.Account) {
	g := l.GW[l.W.Rng.Intn(len(l.GW))]
	rel := g.Acct
	if len(g.HotKeys) > 0 && l.W.Rng.Intn(3) == 0 {
		rel = g.HotKeys[0]
	}
	return g, rel
}

// completedModels lists models whose metadata is in the completed state.
func (l *Life) modelsWhere(pred func(m *lifeModel) bool) []*lifeModel {
	var out []*lifeModel
	for _, m := range l.Models {
		if pred(m) {
			out = append(out, m)
		}
	}
	return out
}

func (l *Life) metaComplete(m *lifeModel) bool {
	md, ok := l.W.Cur.Metas[m.dataId]
	return ok && md.Status == 4 // MetaComplete
}

func (l *Life) pick(ms []*lifeModel) *lifeModel {
	if len(ms) == 0 {
		return nil
	}
	return ms[l.W.Rng.Intn(len(ms))]
}

func (l *Life) durations() (uint64, int32) {
	r := l.W.Rng
	d := uint64(3600 + r.Intn(3)*700 + r.Intn(50))
	var t int32
	switch r.Intn(4) {
	case 0:
		t = int32(50 + r.Intn(100))
	case 1:
		t = int32(300 + r.Intn(300))
	default:
		t = int32(100 + r.Intn(1500))
	}
	if !l.P.BigTimeout && uint64(t)*2 >= d {
		t = int32(d/2 - 1 - uint64(r.Intn(100)))
	}
	return d, t
}

// Step performs one random operation; returns its name.
func (l *Life) Step() string {
	w := l.W
	r := w.Rng
	op := l.pickWeighted()
	switch op {
	case "store":
		o := l.Owners[r.Intn(len(l.Owners))]
		g, rel := l.gateway()
		d, t := l.durations()
		did := w.NewDataId()
		req := world.StoreReq{Owner: o.Id, Gateway: g, Relayer: rel, DataId: did, CommitId: did, Duration: d,
			Replica: int32(1 + r.Intn(3)), Timeout: t, Size: lifeSizes[r.Intn(len(lifeSizes))]}
		m := &lifeModel{dataId: did, owner: o}
		if r.Intn(8) == 0 {
			req.Alias = world.NoAlias // unnamed model
		}
		if r.Intn(5) == 0 {
			// sponsored: the sponsor's payment account submits
			req.Sponsor = l.Sponsor.Id.DID()
			req.Relayer = l.Sponsor.Pay
			req.MsgProv = g.Acct.Addr.String()
			m.sponsor = l.Sponsor
		} else if r.Intn(6) == 0 {
			// submitted by the owner's own bound account: order stays pending until the gateway calls Ready
			req.Relayer = o.Pay
			req.MsgProv = o.Pay.Addr.String()
		}
		e, id := w.Store(req)
		if e.OK {
			l.Models = append(l.Models, m)
			l.byData[did] = m
			if o2, ok := w.Cur.Orders[id]; ok && o2.Status == OrderPending && r.Intn(3) > 0 {
				if r.Intn(2) == 0 {
					// picked up late: possibly later than one timeout interval after creation
					w.Advance(int64(r.Intn(2 * int(t))))
				}
				w.Ready(g.Acct, id, g.Acct.Addr.String())
			}
		}
	case "complete":
		// complete waiting/migrating shards of a random unfinished order
		var cands []uint64
		for _, o := range sortedOrders(w.Cur) {
			for _, sid := range o.Shards {
				if sh, ok := w.Cur.Shards[sid]; ok && (sh.Status == ShardWaiting || sh.Status == ShardMigrating) {
					cands = append(cands, o.Id)
					break
				}
			}
		}
		if len(cands) == 0 {
			return "complete-none"
		}
		oid := cands[r.Intn(len(cands))]
		o := w.Cur.Orders[oid]
		for _, sid := range o.Shards {
			sh, ok := w.Cur.Shards[sid]
			if !ok || (sh.Status != ShardWaiting && sh.Status != ShardMigrating) {
				continue
			}
			if r.Float64() < l.P.Silence {
				continue
			}
			if p := w.ProviderByAddr(sh.Sp); p != nil {
				ce := w.Complete(p.Acct, nil, oid, sh.Size_)
				if ce.OK && r.Intn(3) == 0 {
					// the provider now tries to withdraw capacity that backs the shard it just stored
					if pl, ok := w.Cur.Pledges[p.Acct.Addr.String()]; ok {
						free := pl.TotalStorage - pl.UsedStorage
						w.RemoveVstorage(p.Acct, []uint64{uint64(free) + 1_000_000, uint64(pl.TotalStorage), uint64(free) + uint64(sh.Size_)}[r.Intn(3)])
					}
				}
				if r.Intn(4) == 0 {
					w.Advance(int64(1 + r.Intn(30)))
				}
			}
		}
	case "update", "forcepush":
		m := l.pick(l.modelsWhere(l.metaComplete))
		if m == nil {
			return op + "-none"
		}
		md := w.Cur.Metas[m.dataId]
		g, rel := l.gateway()
		d, t := l.durations()
		m.version++
		newCommit := fmt.Sprintf("%s-v%d", m.dataId[:30], m.version)
		newCommit = (newCommit + "xxxxxxxxxxxxxxxxxxxxxxxxxxxxxxxxxxxx")[:36]
		size := lifeSizes[r.Intn(len(lifeSizes))]
		req := world.StoreReq{Owner: m.owner.Id, Gateway: g, Relayer: rel, DataId: m.dataId, CommitId: md.Commit + "|" + newCommit,
			Duration: d, Replica: int32(1 + r.Intn(3)), Timeout: t, Size: size}
		if op == "forcepush" {
			req.Operation = 2
		}
		w.Store(req)
	case "renew":
		m := l.pick(l.modelsWhere(l.metaComplete))
		if m == nil {
			return "renew-none"
		}
		g, rel := l.gateway()
		d, t := l.durations()
		if r.Intn(2) == 0 {
			d += uint64(r.Intn(3000))
		}
		data := []string{m.dataId}
		if m2 := l.pick(l.modelsWhere(func(x *lifeModel) bool { return x.owner == m.owner && x != m && l.metaComplete(x) })); m2 != nil && r.Intn(3) == 0 {
			data = append(data, m2.dataId)
		}
		w.Renew(m.owner.Id, nil, rel, g.Acct.Addr.String(), d, t, nil, data...)
	case "terminate":
		m := l.pick(l.modelsWhere(func(x *lifeModel) bool { _, ok := w.Cur.Metas[x.dataId]; return ok }))
		if m == nil {
			return "terminate-none"
		}
		g, rel := l.gateway()
		w.Terminate(m.owner.Id, nil, rel, g.Acct.Addr.String(), m.dataId, nil)
	case "cancel":
		var cands []uint64
		for _, o := range sortedOrders(w.Cur) {
			if o.Status != OrderCompleted && o.Operation != 3 {
				cands = append(cands, o.Id)
			}
		}
		if len(cands) == 0 {
			return "cancel-none"
		}
		o := w.Cur.Orders[cands[r.Intn(len(cands))]]
		// the creator cancels, naming itself or the gateway it is a hot key of
		var signer *actors.Account
		for _, a := range w.Accts {
			if a.Addr.String() == o.Creator {
				signer = a
			}
		}
		if signer == nil {
			return "cancel-nosigner"
		}
		prov := o.Creator
		for _, g := range l.GW {
			for _, h := range g.HotKeys {
				if h == signer {
					prov = g.Acct.Addr.String()
				}
			}
		}
		w.Cancel(signer, o.Id, prov)
	case "migrate":
		sp := l.SP[r.Intn(len(l.SP))]
		var data []string
		for _, sh := range sortedShards(w.Cur) {
			if sh.Sp == sp.Acct.Addr.String() && sh.Status == ShardCompleted {
				if o, ok := w.Cur.Orders[sh.OrderId]; ok && !containsStr(data, o.DataId) {
					data = append(data, o.DataId)
				}
			}
		}
		if len(data) == 0 {
			return "migrate-none"
		}
		r.Shuffle(len(data), func(i, j int) { data[i], data[j] = data[j], data[i] })
		if len(data) > 2 {
			data = data[:2]
		}
		w.Migrate(sp.Acct, data...)
	case "claim":
		sp := l.SP[r.Intn(len(l.SP))]
		w.Claim(sp.Acct)
	case "addv":
		sp := l.SP[r.Intn(len(l.SP))]
		w.AddVstorage(sp.Acct, []uint64{1, 999_999, 1_000_000, 1_000_001, 7_500_000}[r.Intn(5)])
	case "removev":
		sp := l.SP[r.Intn(len(l.SP))]
		size := []uint64{1, 999_999, 1_000_000, 1_000_001, 2_500_001, 60_000_000}[r.Intn(6)]
		if pl, ok := w.Cur.Pledges[sp.Acct.Addr.String()]; ok && r.Intn(2) == 0 {
			// sizes relative to the provider's own books: exactly the free capacity, a unit more, everything pledged
			free := pl.TotalStorage - pl.UsedStorage
			switch r.Intn(4) {
			case 0:
				size = uint64(free)
			case 1:
				size = uint64(free) + 1_000_000
			case 2:
				size = uint64(pl.TotalStorage)
			case 3:
				if free > 2_000_000 {
					size = uint64(free) - 1_000_000 + 1
				}
			}
		}
		w.RemoveVstorage(sp.Acct, size)
	case "reset":
		sp := l.SP[r.Intn(len(l.SP))]
		w.ResetNode(sp.Acct, world.StatusAll, nil, "")
	case "advance":
		w.Advance(int64(1 + r.Intn(400)))
	case "jump":
		// jump to just before / at / after the next scheduled height
		next := l.nextScheduled()
		if next == 0 {
			w.Advance(int64(1 + r.Intn(200)))
		} else {
			target := int64(next) + int64(r.Intn(3)) - 1
			if target > w.C.Height+2500 {
				target = w.C.Height + 2500
			}
			w.AdvanceTo(target)
		}
	}
	if w.C.InBlock && r.Intn(3) > 0 {
		w.EndBlock()
	}
	return op
}

func (l *Life) nextScheduled() uint64 {
	h := uint64(l.W.C.Height)
	var best uint64
	upd := func(x uint64) {
		if x > h && (best == 0 || x < best) {
			best = x
		}
	}
	for x := range l.W.Cur.Timeouts {
		upd(x)
	}
	for x := range l.W.Cur.ExpShards {
		upd(x)
	}
	for x := range l.W.Cur.ExpData {
		upd(x)
	}
	return best
}

func (l *Life) lastScheduled() uint64 {
	var best uint64
	for x := range l.W.Cur.Timeouts {
		if x > best {
			best = x
		}
	}
	for x := range l.W.Cur.ExpShards {
		if x > best {
			best = x
		}
	}
	for x := range l.W.Cur.ExpData {
		if x > best {
			best = x
		}
	}
	return best
}

// Run performs the walk and the optional drain.
func (l *Life) Run() {
	w := l.W
	for i := 0; i < l.P.Ops && !w.Halted() && w.C.Height < l.P.MaxHeight; i++ {
		l.Step()
	}
	if l.P.Drain && !w.Halted() {
		// let every provider complete what it can, then cross every scheduled height
		for round := 0; round < 40 && !w.Halted(); round++ {
			last := l.lastScheduled()
			if last == 0 || int64(last) <= w.C.Height {
				break
			}
			target := int64(last) + 1
			if l.P.DrainCap > 0 && target > l.P.DrainCap {
				break
			}
			if target > w.C.Height+20000 {
				break
			}
			w.AdvanceTo(target)
		}
		for _, sp := range l.SP {
			w.Claim(sp.Acct)
		}
		w.EndBlock()
	}
	if l.P.DrainAll && !w.Halted() {
		l.drainAll()
	}
	w.Finish()
}

// drainAll winds everything down: every in-flight order is cancelled by its creator, every model terminated by
// its owner, every provider claims and withdraws all free capacity.  None of these entitled payouts may fail.
func (l *Life) drainAll() {
	w := l.W
	for _, o := range sortedOrders(w.Cur) {
		if o.Status == OrderCompleted || o.Operation == 3 {
			continue
		}
		for _, a := range w.Accts {
			if a.Addr.String() == o.Creator {
				prov := o.Creator
				for _, g := range l.GW {
					for _, h := range g.HotKeys {
						if h == a {
							prov = g.Acct.Addr.String()
						}
					}
				}
				w.Cancel(a, o.Id, prov)
			}
		}
	}
	w.EndBlock()
	for _, d := range sortedMetaKeys(w.Cur) {
		if m, ok := l.byData[d]; ok {
			w.Terminate(m.owner.Id, nil, l.GW[0].Acct, "", d, nil)
		}
	}
	w.EndBlock()
	for _, sp := range l.SP {
		w.Claim(sp.Acct)
		if pl, ok := w.Cur.Pledges[sp.Acct.Addr.String()]; ok {
			free := (pl.TotalStorage - pl.UsedStorage) / 1_000_000 * 1_000_000
			if free > 0 {
				w.RemoveVstorage(sp.Acct, uint64(free))
			}
		}
	}
	w.EndBlock()
	for _, sp := range l.SP {
		withdrawAllProbe(w, sp.Acct)
	}
	w.Advance(3)
	w.Case("life:drain-all:orders-left=%d,shards-left=%d", minInt(len(w.Cur.Orders), 3), minInt(len(w.Cur.Shards), 3))
}

// withdrawAllProbe: a provider that stores nothing withdraws its whole capacity; the whole capacity pledge has to
// come back to it (C07: pledged funds return to the pledger in full, whatever sizes it added capacity in).
func withdrawAllProbe(w *world.World, a *actors.Account) {
	addr := a.Addr.String()
	for try := 0; try < 2; try++ {
		pl, ok := w.Cur.Pledges[addr]
		if !ok || pl.UsedStorage != 0 || pl.TotalStorage <= 0 {
			break
		}
		w.RemoveVstorage(a, uint64(pl.TotalStorage))
		if w.C.InBlock {
			w.EndBlock()
		}
	}
	if pl, ok := w.Cur.Pledges[addr]; ok && pl.UsedStorage == 0 {
		w.Case("c07:withdraw-all-probe:left=%v", pl.TotalStoragePledged.Amount.IsPositive())
		if pl.TotalStoragePledged.Amount.IsPositive() {
			w.Violate("C07", "capacity-pledge-not-withdrawable-in-full", fmt.Sprintf("provider %s stores nothing and asked for its whole capacity back, yet %s of its capacity pledge (for %d bytes) stays in escrow and cannot be withdrawn", shortAddr(addr), pl.TotalStoragePledged, pl.TotalStorage), nil)
		}
	}
}

func containsStr(l []string, x string) bool {
	for _, v := range l {
		if v == x {
			return true
		}
	}
	return false
}

func traceSummary(w *world.World) string {
	n := len(w.Trace)
	if n > 30 {
		return strings.Join(w.Trace[:30], " ") + fmt.Sprintf(" ... (%d events)", n)
	}
	return strings.Join(w.Trace, " ")
}

// newLifeWorld creates the chain+world for a job and registers it with the watchdog.
func newLifeWorld(ctx *check.JobCtx, mons ...world.Monitor) *world.World {
	opts := chain.Options{}
	if recordDir != "" {
		rq, err1 := os.Create(filepath.Join(recordDir, "req.log"))
		rs, err2 := os.Create(filepath.Join(recordDir, "resp.log"))
		if err1 != nil || err2 != nil {
			panic("cannot record stream")
		}
		opts.ReqLog, opts.RespLog = rq, rs
	}
	c := chain.New(opts)
	w := world.New(ctx.Job.Seed, c)
	w.HashStates = true
	w.AddMonitor(mons...)
	ctx.W = w
	check.SetWorld(w)
	return w
}

// scnSponsoredNoPay: a sponsor pays for an owner DID that has no payment address; the owner terminates.
func scnSponsoredNoPay(ctx *check.JobCtx) {
	w := newLifeWorld(ctx, monitorsFor(ctx.Job.Prop)...)
	p := DefaultLife()
	p.Providers = 3
	l := SetupLife(w, p)
	if w.Halted() {
		w.Finish()
		return
	}
	dave := actors.NewKeyDid("dave-nopay")
	g := l.GW[0]
	for k := 0; k < 2 && !w.Halted(); k++ {
		did := w.NewDataId()
		_, oid := w.Store(world.StoreReq{Owner: dave, Gateway: g, Relayer: l.Sponsor.Pay, MsgProv: g.Acct.Addr.String(), DataId: did, CommitId: did,
			Duration: 3600, Replica: 2, Timeout: 300, Size: 1_000_000, Sponsor: l.Sponsor.Id.DID()})
		if oid == 0 {
			continue
		}
		w.CompleteAll(oid)
		w.EndBlock()
		w.Advance(int64(100 + w.Rng.Intn(500)))
		e := w.Terminate(dave, nil, g.Acct, "", did, nil)
		w.Case("c06:terminate-for-owner-without-payment-address:accepted=%v", e.OK)
		w.EndBlock()
		w.Advance(5)
	}
	w.Sample("sponsored order of an owner without payment address: %s", traceSummary(w))
	w.Finish()
}

// scnRecreate: cancellation / termination followed by re-creation of the same data id, then block
// advance across the old and the new scheduled heights.
func scnRecreate(ctx *check.JobCtx) {
	w := newLifeWorld(ctx, monitorsFor(ctx.Job.Prop)...)
	p := DefaultLife()
	p.Providers = 4
	l := SetupLife(w, p)
	if w.Halted() {
		w.Finish()
		return
	}
	r := w.Rng
	g := l.GW[0]
	o := l.Owners[r.Intn(len(l.Owners))]
	mode := ctx.Arg("mode", "cancel")
	did := w.NewDataId()
	d1 := uint64(3600 + r.Intn(300))
	alias := ""
	if ctx.Arg("alias", "") == "none" {
		alias = world.NoAlias // an unnamed model
	}
	_, oid := w.Store(world.StoreReq{Owner: o.Id, Gateway: g, DataId: did, CommitId: did, Duration: d1, Replica: 2, Timeout: 400, Size: 1_000_000, Alias: alias})
	w.EndBlock()
	if mode == "two-unnamed" {
		// a second unnamed model of the same owner and group while the first exists; then the first ends
		w.CompleteAll(oid)
		w.EndBlock()
		did2 := w.NewDataId()
		_, o2 := w.Store(world.StoreReq{Owner: o.Id, Gateway: g, DataId: did2, CommitId: did2, Duration: d1 + 500, Replica: 1, Timeout: 400, Size: 1_000_000, Alias: world.NoAlias})
		if o2 != 0 {
			w.CompleteAll(o2)
		}
		w.EndBlock()
		w.Case("c13:recipe:two-unnamed:second-accepted=%v", o2 != 0)
		w.Advance(int64(10 + r.Intn(300)))
		w.Terminate(o.Id, nil, g.Acct, "", did, nil)
		w.EndBlock()
		// a third unnamed model after the first has gone
		did3 := w.NewDataId()
		_, o3 := w.Store(world.StoreReq{Owner: o.Id, Gateway: g, DataId: did3, CommitId: did3, Duration: 3600, Replica: 1, Timeout: 400, Size: 1_000_000, Alias: world.NoAlias})
		if o3 != 0 {
			w.CompleteAll(o3)
		}
		w.EndBlock()
		last := l.lastScheduled()
		if last > 0 && int64(last) < w.C.Height+20000 {
			w.AdvanceTo(int64(last) + 2)
		}
		w.Sample("two unnamed models: %s", traceSummary(w))
		w.Finish()
		return
	}
	if mode == "update-cancel" || mode == "update-timeout" {
		// an update (or force-push) on top of a committed version, reaching beyond the model's paid lifetime, ends
		// before any of its shards is stored: the model must return to the committed version, lifetime included
		w.CompleteAll(oid)
		w.EndBlock()
		if ctx.Arg("renewed", "") == "1" {
			// the committed version has been renewed: the model's order list is longer than its version history
			w.Advance(int64(10 + r.Intn(200)))
			w.Renew(o.Id, nil, g.Acct, "", 3600+uint64(r.Intn(500)), 300, nil, did)
			w.EndBlock()
		}
		w.Advance(int64(200 + r.Intn(1500)))
		md := w.Cur.Metas[did]
		to := int32(20 + r.Intn(30))
		op := uint32(1 + r.Intn(2))
		_, u := w.Store(world.StoreReq{Owner: o.Id, Gateway: g, DataId: did, CommitId: md.Commit + "|" + (did[:28] + "-updcxxxxxxxxxxxx")[:36], Duration: 3600 + uint64(r.Intn(2000)), Replica: int32(1 + r.Intn(2)), Timeout: to, Size: 1_000_000, Operation: op, Alias: world.AliasOf(md.Alias)})
		w.EndBlock()
		if u != 0 {
			if mode == "update-cancel" {
				w.Advance(int64(r.Intn(int(to) - 2)))
				w.Cancel(g.Acct, u, g.Acct.Addr.String())
			} else {
				w.Advance(int64(to)*11 + 5)
			}
		}
		w.EndBlock()
		w.Case("c05:recipe:%s:accepted=%v,op=%d,renewed=%v", mode, u != 0, op, ctx.Arg("renewed", "") == "1")
		last := l.lastScheduled()
		if last > 0 && int64(last) < w.C.Height+20000 {
			w.AdvanceTo(int64(last) + 2)
		}
		w.Sample("update ended before storage (%s): %s", mode, traceSummary(w))
		w.Finish()
		return
	}
	switch mode {
	case "cancel":
		w.Advance(int64(r.Intn(200)))
		w.Cancel(g.Acct, oid, g.Acct.Addr.String())
	case "timeout":
		w.Advance(5000) // providers silent: timeout cancel
	case "terminate":
		w.CompleteAll(oid)
		w.EndBlock()
		w.Advance(int64(50 + r.Intn(800)))
		w.Terminate(o.Id, nil, g.Acct, "", did, nil)
	case "terminate-inflight":
		w.Advance(int64(r.Intn(100)))
		w.Terminate(o.Id, nil, g.Acct, "", did, nil)
		w.EndBlock()
		w.Cancel(g.Acct, oid, g.Acct.Addr.String())
	}
	w.EndBlock()
	w.Advance(int64(1 + r.Intn(300)))
	// same data id again, with a lifetime that straddles the first one's scheduled end
	d2 := uint64(3600 + r.Intn(2500))
	_, oid2 := w.Store(world.StoreReq{Owner: o.Id, Gateway: g, DataId: did, CommitId: did, Duration: d2, Replica: 2, Timeout: 400, Size: 1_000_000, Alias: alias})
	w.Case("c11:recreate:%s:accepted=%v,unnamed=%v", mode, oid2 != 0, alias != "")
	if oid2 != 0 {
		w.CompleteAll(oid2)
		w.EndBlock()
		if r.Intn(2) == 0 {
			w.Advance(int64(100 + r.Intn(1000)))
			w.Renew(o.Id, nil, g.Acct, "", 3600+uint64(r.Intn(1000)), 300, nil, did)
		}
	}
	last := l.lastScheduled()
	if last > 0 && int64(last) < w.C.Height+20000 {
		w.AdvanceTo(int64(last) + 2)
	}
	w.Sample("recreate after %s: %s", mode, traceSummary(w))
	w.Finish()
}
