package props

import (
	"fmt"
	"sort"

	"saoverif/mon"
	"saoverif/world"

	sdk "github.com/cosmos/cosmos-sdk/types"
)

const (
	ShardWaiting   = 0
	ShardCompleted = 2
	ShardMigrating = 4
	ShardTimeout   = 5

	OrderPending   = 0
	OrderCompleted = 3
	OrderDataReady = 6
)

// ---------------------------------------------------------------- C13

// C13 checks referential integrity of orders, shards, models and schedules on
// every block-boundary snapshot.
type C13 struct{ relations int64 }

func (m *C13) ID() string                          { return "C13" }
func (m *C13) Tx(w *world.World, e *world.TxEvent) {}
func (m *C13) Done(w *world.World)                 { w.Count("c13.relations_evaluated", m.relations) }

func (m *C13) Block(w *world.World, e *world.BlockEvent) {
	s := e.Post
	h := uint64(s.Height)
	for _, o := range sortedOrders(s) {
		for _, id := range o.Shards {
			m.relations++
			if _, ok := s.Shards[id]; !ok {
				w.Violate("C13", "order-lists-missing-shard", fmt.Sprintf("order %d (op %d status %d) lists shard %d which does not exist", o.Id, o.Operation, o.Status, id), nil)
			}
		}
		// an order handed to providers with unfinished shards must be reachable from the timeout schedule
		if o.Status == OrderDataReady || o.Status == OrderCompleted {
			waiting := 0
			for _, id := range o.Shards {
				if sh, ok := s.Shards[id]; ok && sh.Status == ShardWaiting && o.Operation != 3 {
					waiting++
				}
			}
			if waiting > 0 && o.Status == OrderDataReady {
				m.relations++
				found := false
				for th, list := range s.Timeouts {
					if th > h {
						for _, id := range list {
							if id == o.Id {
								found = true
							}
						}
					}
				}
				if !found {
					w.Violate("C13", "unfinished-order-not-in-timeout-schedule", fmt.Sprintf("order %d is handed to providers with %d waiting shards and holds %s in escrow but no future timeout check lists it (timeout %d duration %d)", o.Id, waiting, o.Amount, o.Timeout, o.Duration), nil)
				}
			}
		}
	}
	for _, sh := range sortedShards(s) {
		m.relations++
		o, ok := s.Orders[sh.OrderId]
		if !ok {
			w.Violate("C13", "shard-names-missing-order", fmt.Sprintf("shard %d (status %d sp %s) names order %d which does not exist", sh.Id, sh.Status, sh.Sp, sh.OrderId), nil)
		} else if !containsU64(o.Shards, sh.Id) {
			w.Violate("C13", "shard-not-listed-by-its-order", fmt.Sprintf("shard %d (status %d) names order %d which lists %v", sh.Id, sh.Status, sh.OrderId, o.Shards), nil)
		}
		if sh.Status == ShardCompleted {
			m.relations++
			end := sh.CreatedAt + sh.Duration
			if !containsU64(s.ExpShards[end], sh.Id) {
				w.Violate("C13", "completed-shard-without-release-schedule", fmt.Sprintf("completed shard %d (order %d) ends at %d but the release schedule for that height is %v", sh.Id, sh.OrderId, end, s.ExpShards[end]), nil)
			}
		}
	}
	// models <-> metadata
	byData := map[string][]string{}
	for k, d := range s.Models {
		byData[d] = append(byData[d], k)
		m.relations++
		if _, ok := s.Metas[d]; !ok {
			w.Violate("C13", "alias-points-to-missing-model", fmt.Sprintf("alias entry %q points at data id %s which has no metadata", k, d), nil)
		}
	}
	for _, d := range sortedMetaKeys(s) {
		md := s.Metas[d]
		m.relations++
		ks := byData[d]
		want := fmt.Sprintf("%s-%s-%s", md.Owner, md.Alias, md.GroupId)
		if len(ks) != 1 || ks[0] != want {
			w.Violate("C13", "model-alias-entries", fmt.Sprintf("data model %s has alias entries %v, expected exactly [%s]", d, ks, want), nil)
		}
		// the model must be reachable from the data-expiry schedule
		m.relations++
		end := md.CreatedAt + md.Duration
		inSched := false
		for _, x := range s.ExpData[end] {
			if x == d {
				inSched = true
			}
		}
		if !inSched {
			w.Violate("C13", "model-not-in-expiry-schedule", fmt.Sprintf("data model %s (createdAt %d duration %d) is not listed in the expiry schedule at height %d", d, md.CreatedAt, md.Duration, end), nil)
		}
	}
	w.Case("c13:orders=%d,shards=%d,metas=%d,timeouts=%d,expiries=%d", bucket(len(s.Orders)), bucket(len(s.Shards)), bucket(len(s.Metas)), bucket(len(s.Timeouts)), bucket(len(s.ExpShards)))
}

func bucket(n int) int {
	switch {
	case n <= 3:
		return n
	case n <= 6:
		return 6
	case n <= 12:
		return 12
	default:
		return 99
	}
}

func containsU64(l []uint64, x uint64) bool {
	for _, v := range l {
		if v == x {
			return true
		}
	}
	return false
}

func sortedMetaKeys(s *mon.State) []string {
	ks := make([]string, 0, len(s.Metas))
	for k := range s.Metas {
		ks = append(ks, k)
	}
	sort.Strings(ks)
	return ks
}

// ---------------------------------------------------------------- C14

// C14 checks the aggregate counters against sums over live shards and pledges.
type C14 struct{ checks int64 }

func (m *C14) ID() string                          { return "C14" }
func (m *C14) Tx(w *world.World, e *world.TxEvent) {}
func (m *C14) Done(w *world.World)                 { w.Count("c14.equalities_evaluated", m.checks) }

func (m *C14) Block(w *world.World, e *world.BlockEvent) {
	s := e.Post
	type agg struct {
		size   uint64
		rate   sdk.Dec
		pledge sdk.Int
		n      int
	}
	per := map[string]*agg{}
	get := func(p string) *agg {
		a, ok := per[p]
		if !ok {
			a = &agg{rate: sdk.ZeroDec(), pledge: sdk.ZeroInt()}
			per[p] = a
		}
		return a
	}
	for _, sh := range sortedShards(s) {
		if sh.Status != ShardCompleted {
			continue
		}
		a := get(sh.Sp)
		a.size += sh.Size_
		a.n++
		a.pledge = a.pledge.Add(sh.Pledge.Amount)
		if o, ok := s.Orders[sh.OrderId]; ok {
			a.rate = a.rate.Add(o.UnitPrice.Amount.MulInt64(int64(sh.Size_)))
		}
	}
	provs := map[string]bool{}
	for p := range s.Pledges {
		provs[p] = true
	}
	for p := range s.Workers {
		provs[p] = true
	}
	for p := range per {
		provs[p] = true
	}
	totStorage := int64(0)
	totPledged := sdk.ZeroInt()
	names := make([]string, 0, len(provs))
	for p := range provs {
		names = append(names, p)
	}
	sort.Strings(names)
	for _, p := range names {
		a := get(p)
		pl, hasPl := s.Pledges[p]
		if hasPl {
			totStorage += pl.TotalStorage
			totPledged = totPledged.Add(pl.TotalStoragePledged.Amount)
			m.checks += 2
			if pl.UsedStorage != int64(a.size) {
				w.Violate("C14", "used-storage-differs-from-live-shards", fmt.Sprintf("provider %s: used capacity %d but its %d live shards total %d bytes", p, pl.UsedStorage, a.n, a.size), nil)
			}
			if !pl.TotalShardPledged.Amount.Equal(a.pledge) {
				w.Violate("C14", "shard-collateral-total-differs-from-live-shards", fmt.Sprintf("provider %s: total shard collateral %s but its %d live shards carry %s", p, pl.TotalShardPledged.Amount, a.n, a.pledge), nil)
			}
		} else if a.n > 0 {
			w.Violate("C14", "live-shards-without-pledge-row", fmt.Sprintf("provider %s stores %d shards but has no pledge record", p, a.n), nil)
		}
		wk, hasWk := s.Workers[p]
		if hasWk {
			m.checks += 2
			if wk.Storage != a.size {
				w.Violate("C14", "market-stored-bytes-differs-from-live-shards", fmt.Sprintf("provider %s: market account stores %d bytes but live shards total %d", p, wk.Storage, a.size), nil)
			}
			if !wk.IncomePerSecond.Amount.Equal(a.rate) {
				w.Violate("C14", "income-rate-differs-from-live-shards", fmt.Sprintf("provider %s: income rate %s but live shards give %s", p, wk.IncomePerSecond.Amount, a.rate), nil)
			}
		} else if a.n > 0 {
			w.Violate("C14", "live-shards-without-market-account", fmt.Sprintf("provider %s stores %d shards but has no market account", p, a.n), nil)
		}
	}
	if s.PoolFound {
		m.checks += 2
		if s.Pool.TotalStorage != totStorage {
			w.Violate("C14", "network-capacity-total", fmt.Sprintf("network pledged capacity %d but providers sum to %d", s.Pool.TotalStorage, totStorage), nil)
		}
		if !s.Pool.TotalPledged.Amount.Equal(totPledged) {
			w.Violate("C14", "network-pledged-coins-total", fmt.Sprintf("network pledged coins %s but providers sum to %s", s.Pool.TotalPledged.Amount, totPledged), nil)
		}
	}
	live := 0
	for _, a := range per {
		live += a.n
	}
	w.Case("c14:providers=%d,live=%d,renewed=%v,debts=%d", bucket(len(names)), bucket(live), anyRenewed(s), bucket(len(s.Debts)))
}

func anyRenewed(s *mon.State) bool {
	for _, sh := range s.Shards {
		if len(sh.RenewInfos) > 0 {
			return true
		}
	}
	return false
}
