package props

import (
	"fmt"

	"saoverif/check"
	"saoverif/world"
)

// monitorFactories maps a property id to the monitors that decide it.
var monitorFactories = map[string]func() []world.Monitor{}

func monitorsFor(prop string) []world.Monitor {
	if f, ok := monitorFactories[prop]; ok {
		return f()
	}
	return nil
}

func allMonitors() []world.Monitor {
	var out []world.Monitor
	for _, id := range []string{"C04", "C05", "C06", "C07", "C08", "C11", "C12", "C13", "C14", "C15", "C16"} {
		out = append(out, monitorsFor(id)...)
	}
	return out
}

func init() {
	monitorFactories["C13"] = func() []world.Monitor { return []world.Monitor{&C13{}} }
	monitorFactories["C14"] = func() []world.Monitor { return []world.Monitor{&C14{}} }
	monitorFactories["C04"] = func() []world.Monitor { return []world.Monitor{NewC04()} }
	monitorFactories["C05"] = func() []world.Monitor { return []world.Monitor{NewC05()} }
	monitorFactories["C06"] = func() []world.Monitor { return []world.Monitor{&C06{}} }
	monitorFactories["C07"] = func() []world.Monitor { return []world.Monitor{&C07{}} }
	monitorFactories["C11"] = func() []world.Monitor { return []world.Monitor{NewC11()} }
	monitorFactories["C08"] = func() []world.Monitor { return []world.Monitor{NewC08()} }
	monitorFactories["C15"] = func() []world.Monitor { return []world.Monitor{&C15{}} }
	monitorFactories["C16"] = func() []world.Monitor { return []world.Monitor{NewC16()} }

	check.Register("life", scnLife)

	lifeJobs := func(prop string, quickN, thoroughN int, extra map[string]string) func(string, int64) []check.Job {
		return func(tier string, seed int64) []check.Job {
			n := quickN
			if tier == "thorough" {
				n = thoroughN
			}
			var jobs []check.Job
			for i := 0; i < n; i++ {
				args := map[string]string{"profile": []string{"mixed", "renewheavy", "timeouts", "migrate", "rewards"}[i%5]}
				for k, v := range extra {
					args[k] = v
				}
				if tier == "thorough" {
					args["ops"] = "110"
				}
				jobs = append(jobs, check.Job{Prop: prop, Scenario: "life", Seed: seed*1000003 + int64(i), Args: args})
			}
			return jobs
		}
	}
	check.RegisterSpec(&check.Spec{Prop: "C13", Level: "exploration",
		Rule:     "seeded random walks over the order lifecycle (store/ready/complete/update/force-push/renew/terminate/cancel/migrate/claim/capacity changes, silent providers, block advance across every scheduled height); after every block all relations are evaluated on the committed state. A case is the shape (bucketed counts of orders, shards, models, pending timeouts, pending expiries) of a state on which the relations were evaluated; distinct_nontrivial counts distinct shapes with at least one order or model.",
		Jobs:     lifeJobs("C13", 5, 64, nil),
		MinCases: map[string]int{"quick": 10, "thorough": 30},
		Assumptions: []string{"state is read through the keepers' own getters over the committed multistore", "workloads reach only the states the seeded walks produce"}})
	for _, id := range []string{"C04", "C05", "C06", "C07", "C08", "C11", "C15", "C16"} {
		check.RegisterSpec(&check.Spec{Prop: id, Level: "exploration", Rule: "lifecycle walks (draft)", Jobs: lifeJobs(id, 5, 64, nil), MinCases: map[string]int{"quick": 4, "thorough": 8}})
	}
	check.RegisterSpec(&check.Spec{Prop: "C14", Level: "exploration",
		Rule:     "same lifecycle walks; after every block the six aggregate equalities are evaluated per provider and network-wide. A case is the bucketed (providers, live shards, any renewed shard, open debts) shape of a state; distinct_nontrivial counts distinct shapes.",
		Jobs:     lifeJobs("C14", 5, 64, nil),
		MinCases: map[string]int{"quick": 6, "thorough": 12},
		Assumptions: []string{"state is read through the keepers' own getters over the committed multistore"}})
}

func lifeProfile(name string) LifeParams {
	p := DefaultLife()
	switch name {
	case "renewheavy":
		p.Weights["renew"] = 16
		p.Weights["terminate"] = 5
		p.Weights["store"] = 8
		p.PoorSP = true
	case "timeouts":
		p.Silence = 0.5
		p.Weights["jump"] = 14
		p.Weights["cancel"] = 5
		p.Providers = 4
	case "migrate":
		p.Weights["migrate"] = 14
		p.Weights["renew"] = 9
		p.Providers = 6
	case "rewards":
		p.BlockReward = 1000
		p.Weights["claim"] = 12
		p.Weights["addv"] = 6
		p.Weights["removev"] = 6
	}
	return p
}

func scnLife(ctx *check.JobCtx) {
	var mons []world.Monitor
	if ctx.Arg("allmon", "") == "1" {
		mons = allMonitors()
	} else {
		mons = monitorsFor(ctx.Job.Prop)
	}
	w := newLifeWorld(ctx, mons...)
	w.BeginStates = true
	p := lifeProfile(ctx.Arg("profile", "mixed"))
	p.Ops = int(ctx.ArgInt("ops", int64(p.Ops)))
	p.MaxHeight = ctx.ArgInt("maxh", p.MaxHeight)
	if ctx.Arg("bigtimeout", "") == "1" {
		p.BigTimeout = true
	}
	l := SetupLife(w, p)
	l.Run()
	w.Sample("%s profile=%s height=%d: %s", ctx.Job.Scenario, ctx.Arg("profile", "mixed"), w.C.Height, traceSummary(w))
	_ = fmt.Sprint
}

// debugging helpers
func DebugLifeWorld(ctx *check.JobCtx) *world.World { return newLifeWorld(ctx, monitorsFor(ctx.Job.Prop)...) }
func LifeProfileDbg(n string) LifeParams           { return lifeProfile(n) }
func DebugLifeWorldAll(ctx *check.JobCtx) *world.World { return newLifeWorld(ctx, allMonitors()...) }
