package props

import (
	"fmt"

	"saoverif/check"
	"saoverif/world"
)

// monitorFactories maps a property id to the monitors that decide it.
var monitorFactories = map[string]func() []world.Monitor{}

func monitorsFor(prop string) []world.Monitor {
	if f, ok := monitorFactories[prop]; ok {
		return f()
	}
	return nil
}

func allMonitors() []world.Monitor {
	var out []world.Monitor
	for _, id := range []string{"C04", "C05", "C06", "C07", "C08", "C11", "C12", "C13", "C14", "C15", "C16"} {
		out = append(out, monitorsFor(id)...)
	}
	return out
}

func init() {
	monitorFactories["C13"] = func() []world.Monitor { return []world.Monitor{&C13{}} }
	monitorFactories["C14"] = func() []world.Monitor { return []world.Monitor{&C14{}} }
	monitorFactories["C04"] = func() []world.Monitor { return []world.Monitor{NewC04()} }
	monitorFactories["C05"] = func() []world.Monitor { return []world.Monitor{NewC05()} }
	monitorFactories["C06"] = func() []world.Monitor { return []world.Monitor{&C06{}} }
	monitorFactories["C07"] = func() []world.Monitor { return []world.Monitor{&C07{}} }
	monitorFactories["C11"] = func() []world.Monitor { return []world.Monitor{NewC11()} }
	monitorFactories["C08"] = func() []world.Monitor { return []world.Monitor{NewC08()} }
	monitorFactories["C15"] = func() []world.Monitor { return []world.Monitor{&C15{}} }
	monitorFactories["C16"] = func() []world.Monitor { return []world.Monitor{NewC16()} }

	check.Register("life", scnLife)
	check.Register("authz", scnAuthz)
	check.Register("actor", scnActor)
	monitorFactories["C10"] = func() []world.Monitor { return []world.Monitor{&C10{}} }
	c10life := lifeJobs("C10", 2, 24, nil)
	check.RegisterSpec(&check.Spec{Prop: "C10", Level: "exploration",
		Rule: "an attacker node whose own TxAddresses list names the victims (gateway, its hot key, providers, owners' accounts) and a plain attacker account send cancel / complete / ready / migrate / store of a captured owner-signed proposal / store on a sponsor / node messages against other parties' objects, with the claimed provider set to itself, the victim gateway, the victim provider and a non-node; rightful actors are interleaved as controls; lifecycle walks ride along. The oracle decides every ACCEPTED transaction from the pre-state: who may report a shard, cancel, make ready, migrate, be charged, and whose node/pledge/balance a node message touched. A case is (message/attacker/claimed provider, accepted or rejected); distinct_nontrivial counts distinct cases.",
		Jobs: func(tier string, seed int64) []check.Job {
			jobs := c10life(tier, seed)
			n, rounds := 2, "2"
			if tier == "thorough" {
				n, rounds = 12, "6"
			}
			for i := 0; i < n; i++ {
				jobs = append(jobs, check.Job{Prop: "C10", Scenario: "actor", Seed: seed*6007 + int64(i), Args: map[string]string{"rounds": rounds}})
			}
			return jobs
		},
		MinCases:    map[string]int{"quick": 40, "thorough": 60},
		Assumptions: []string{"the transaction signer is known from the request factory; entitlement is evaluated on the state immediately before the transaction"}})
	monitorFactories["C09"] = func() []world.Monitor { return []world.Monitor{&C09{}, NewC16()} }
	check.RegisterSpec(&check.Spec{Prop: "C09", Level: "exploration",
		Rule: "adversary matrix: request type {update, force-push, renew, terminate, permission} x signer {owner, read-write grantee, read-only grantee, stranger, revoked grantee} x relayer {named gateway, its hot key, another gateway, non-node} x mutation {none, payload altered after signing, replayed signature of another request, garbage JWS, empty JWS, owner field of the victim, kid of the victim signed with another key, sid kid naming a foreign document version, commit ids embedding the data id / with empty base / separators}, against models of a did:key and a did:sid owner; the oracle compares the full projection of the target model (metadata, alias, orders, shards, expiry schedule) before and after each request whose authorization is known by construction. A case is (type/signer/mutation/relayer, accepted or rejected); distinct_nontrivial counts distinct cases.",
		Jobs: func(tier string, seed int64) []check.Job {
			n, rounds, rel := 2, "1", "2"
			if tier == "thorough" {
				n, rounds, rel = 16, "3", "4"
			}
			var jobs []check.Job
			for i := 0; i < n; i++ {
				jobs = append(jobs, check.Job{Prop: "C09", Scenario: "authz", Seed: seed*7919 + int64(i), Args: map[string]string{"rounds": rounds, "relayers": rel}})
			}
			return jobs
		},
		MinCases:    map[string]int{"quick": 100, "thorough": 300},
		Assumptions: []string{"authorization of each probe is known by construction from the request factory (which key signed which bytes, role of that DID for the model at that moment)"}})

	check.RegisterSpec(&check.Spec{Prop: "C13", Level: "exploration",
		Rule:        "seeded random walks over the order lifecycle (store/ready/complete/update/force-push/renew/terminate/cancel/migrate/claim/capacity changes, silent providers, block advance across every scheduled height); after every block all relations are evaluated on the committed state. A case is the shape (bucketed counts of orders, shards, models, pending timeouts, pending expiries) of a state on which the relations were evaluated; distinct_nontrivial counts distinct shapes with at least one order or model.",
		Jobs:        lifeJobs("C13", 5, 64, nil),
		MinCases:    map[string]int{"quick": 10, "thorough": 30},
		Assumptions: []string{"state is read through the keepers' own getters over the committed multistore", "workloads reach only the states the seeded walks produce"}})
	for _, id := range []string{"C04", "C05", "C06", "C07", "C08", "C11", "C15"} {
		check.RegisterSpec(&check.Spec{Prop: id, Level: "exploration", Rule: "lifecycle walks (draft)", Jobs: lifeJobs(id, 5, 64, nil), MinCases: map[string]int{"quick": 4, "thorough": 8}})
	}
	c16life := lifeJobs("C16", 3, 40, nil)
	check.RegisterSpec(&check.Spec{Prop: "C16", Level: "exploration",
		Rule: "lifecycle walks (concurrent updates through two gateways, cancels, timeouts, force-pushes) plus the authorization matrix with commit-id shapes {exact base, empty base, substring/prefix of the latest, data id embedded, separators only}; the oracle keeps an id registry and, per model, compares each accepted update's stated base with the last committed version and each history change with append-one / replace-last. A case is (accepted update: base shape, operation, model status) or (history change kind, length); distinct_nontrivial counts distinct cases.",
		Jobs: func(tier string, seed int64) []check.Job {
			jobs := c16life(tier, seed)
			n, rounds := 1, "1"
			if tier == "thorough" {
				n, rounds = 8, "2"
			}
			for i := 0; i < n; i++ {
				jobs = append(jobs, check.Job{Prop: "C16", Scenario: "authz", Seed: seed*104729 + int64(i), Args: map[string]string{"rounds": rounds, "relayers": "2"}})
			}
			return jobs
		},
		MinCases:    map[string]int{"quick": 4, "thorough": 6},
		Assumptions: []string{"history is read from the metadata query after every transaction and block"}})
	check.RegisterSpec(&check.Spec{Prop: "C14", Level: "exploration",
		Rule:        "same lifecycle walks; after every block the six aggregate equalities are evaluated per provider and network-wide. A case is the bucketed (providers, live shards, any renewed shard, open debts) shape of a state; distinct_nontrivial counts distinct shapes.",
		Jobs:        lifeJobs("C14", 5, 64, nil),
		MinCases:    map[string]int{"quick": 6, "thorough": 12},
		Assumptions: []string{"state is read through the keepers' own getters over the committed multistore"}})
}

func lifeProfile(name string) LifeParams {
	p := DefaultLife()
	switch name {
	case "renewheavy":
		p.Weights["renew"] = 16
		p.Weights["terminate"] = 5
		p.Weights["store"] = 8
		p.PoorSP = true
	case "timeouts":
		p.Silence = 0.5
		p.Weights["jump"] = 14
		p.Weights["cancel"] = 5
		p.Providers = 4
	case "migrate":
		p.Weights["migrate"] = 14
		p.Weights["renew"] = 9
		p.Providers = 6
	case "rewards":
		p.BlockReward = 1000
		p.Weights["claim"] = 12
		p.Weights["addv"] = 6
		p.Weights["removev"] = 6
	}
	return p
}

func scnLife(ctx *check.JobCtx) {
	var mons []world.Monitor
	if ctx.Arg("allmon", "") == "1" {
		mons = allMonitors()
	} else {
		mons = monitorsFor(ctx.Job.Prop)
	}
	w := newLifeWorld(ctx, mons...)
	w.BeginStates = true
	p := lifeProfile(ctx.Arg("profile", "mixed"))
	p.Ops = int(ctx.ArgInt("ops", int64(p.Ops)))
	p.MaxHeight = ctx.ArgInt("maxh", p.MaxHeight)
	if ctx.Arg("bigtimeout", "") == "1" {
		p.BigTimeout = true
	}
	l := SetupLife(w, p)
	l.Run()
	w.Sample("%s profile=%s height=%d: %s", ctx.Job.Scenario, ctx.Arg("profile", "mixed"), w.C.Height, traceSummary(w))
	_ = fmt.Sprint
}

// debugging helpers
func DebugLifeWorld(ctx *check.JobCtx) *world.World {
	return newLifeWorld(ctx, monitorsFor(ctx.Job.Prop)...)
}
func LifeProfileDbg(n string) LifeParams               { return lifeProfile(n) }
func DebugLifeWorldAll(ctx *check.JobCtx) *world.World { return newLifeWorld(ctx, allMonitors()...) }

func lifeJobs(prop string, quickN, thoroughN int, extra map[string]string) func(string, int64) []check.Job {
	return func(tier string, seed int64) []check.Job {
		n := quickN
		if tier == "thorough" {
			n = thoroughN
		}
		var jobs []check.Job
		for i := 0; i < n; i++ {
			args := map[string]string{"profile": []string{"mixed", "renewheavy", "timeouts", "migrate", "rewards"}[i%5]}
			for k, v := range extra {
				args[k] = v
			}
			if tier == "thorough" {
				args["ops"] = "110"
			}
			jobs = append(jobs, check.Job{Prop: prop, Scenario: "life", Seed: seed*1000003 + int64(i), Args: args})
		}
		return jobs
	}
}
