package props

import (
	"fmt"
	nodetypes "github.com/SaoNetwork/sao/x/node/types"
	sdk "github.com/cosmos/cosmos-sdk/types"
	"saoverif/chain"
	"strings"

	"saoverif/check"
	"saoverif/world"
)

// monitorFactories maps a property id to the monitors that decide it.
var monitorFactories = map[string]func() []world.Monitor{}

func monitorsFor(prop string) []world.Monitor {
	if f, ok := monitorFactories[prop]; ok {
		return f()
	}
	return nil
}

func allMonitors() []world.Monitor {
	var out []world.Monitor
	for _, id := range []string{"C04", "C05", "C06", "C07", "C08", "C11", "C12", "C13", "C14", "C15", "C16"} {
		out = append(out, monitorsFor(id)...)
	}
	return out
}

func init() {
	monitorFactories["C13"] = func() []world.Monitor { return []world.Monitor{&C13{}} }
	monitorFactories["C14"] = func() []world.Monitor { return []world.Monitor{&C14{}} }
	monitorFactories["C04"] = func() []world.Monitor { return []world.Monitor{NewC04()} }
	monitorFactories["C05"] = func() []world.Monitor { return []world.Monitor{NewC05()} }
	monitorFactories["C06"] = func() []world.Monitor { return []world.Monitor{&C06{}} }
	monitorFactories["C07"] = func() []world.Monitor { return []world.Monitor{&C07{}} }
	monitorFactories["C11"] = func() []world.Monitor { return []world.Monitor{NewC11()} }
	monitorFactories["C08"] = func() []world.Monitor { return []world.Monitor{NewC08()} }
	monitorFactories["C15"] = func() []world.Monitor { return []world.Monitor{&C15{}} }
	monitorFactories["C16"] = func() []world.Monitor { return []world.Monitor{NewC16()} }

	check.Register("life", scnLife)
	check.Register("authz", scnAuthz)
	check.Register("actor", scnActor)
	check.Register("didreg", scnDidReg)
	check.Register("staking", scnStaking)
	check.Register("faults", scnFaults)
	check.Register("replica", scnReplica)
	check.Register("selection", scnSelection)
	check.Register("hostile", scnHostile)
	check.Register("config", scnConfig)
	check.Register("genesis", scnGenesisRoundTrip)
	check.Register("timeouts", scnTimeouts)
	check.Register("payaddr-switch", scnPayaddrSwitch)
	check.Register("lone-pledge", scnLonePledge)
	check.Register("sponsored-nopay", scnSponsoredNoPay)
	monitorFactories["C12"] = func() []world.Monitor { return []world.Monitor{NewC12(), NewC05()} }
	c12life := lifeJobs("C12", 2, 16, map[string]string{"bigtimeout": "1"})
	check.RegisterSpec(&check.Spec{Prop: "C12", Level: "fault_enumeration",
		Rule: "silence patterns are enumerated: for an order of r replicas and up to 3 attempts, every assigned provider independently completes or stays silent at each attempt (2^(3r) patterns, one order per pattern), with 0 / 1 / several replacement providers in the population, timeout/duration ratios {small, exactly 1/2, above 1/2, equal}, and orders handed out by Store and by Ready; lifecycle walks with timeouts >= duration/2 ride along. The monitor checks at every block boundary that an unfinished order has a future examination scheduled, that it is resolved (fully stored / cancelled / reduced with refund) within its lifetime and, without any replacement provider, right after ten intervals, and that an examination of a fully stored order changes nothing and schedules nothing. A case is a (replica, replacements, ratio, path, pattern bits) tuple or a resolution class (kind, examinations it took); distinct_nontrivial counts distinct cases.",
		Jobs: func(tier string, seed int64) []check.Job {
			jobs := c12life(tier, seed)
			add := func(a map[string]string) {
				jobs = append(jobs, check.Job{Prop: "C12", Scenario: "timeouts", Seed: seed*2750159 + int64(len(jobs)), Args: a})
			}
			for _, td := range []string{"small", "half", "over", "full"} {
				for _, extra := range []string{"0", "1", "3"} {
					add(map[string]string{"replica": "1", "attempts": "3", "extra": extra, "td": td})
				}
			}
			for _, extra := range []string{"0", "1", "4"} {
				add(map[string]string{"replica": "2", "attempts": "3", "extra": extra, "td": "small"})
			}
			add(map[string]string{"replica": "2", "attempts": "2", "extra": "1", "td": "small", "ready": "1"})
			add(map[string]string{"replica": "1", "attempts": "3", "extra": "0", "td": "over", "ready": "1"})
			// twin orders created in the same block (same examination height), one of them cancelled early
			add(map[string]string{"replica": "1", "attempts": "3", "extra": "1", "td": "small", "twin": "1"})
			add(map[string]string{"replica": "2", "attempts": "2", "extra": "0", "td": "small", "twin": "1"})
			// one of the providers holds the super role
			add(map[string]string{"replica": "1", "attempts": "3", "extra": "1", "td": "small", "super": "1"})
			add(map[string]string{"replica": "2", "attempts": "2", "extra": "1", "td": "small", "super": "1"})
			add(map[string]string{"replica": "1", "attempts": "3", "extra": "0", "td": "small", "super": "1"})
			add(map[string]string{"replica": "2", "attempts": "2", "extra": "0", "td": "small", "super": "1"})
			jobs = append(jobs, recipes("C12", "tiny-reduce", "exam-during-migration")(tier, seed)...)
			if tier == "thorough" {
				for _, td := range []string{"half", "over"} {
					for _, extra := range []string{"0", "2"} {
						add(map[string]string{"replica": "2", "attempts": "3", "extra": extra, "td": td})
					}
				}
				for _, extra := range []string{"0", "1", "5"} {
					add(map[string]string{"replica": "3", "attempts": "3", "extra": extra, "td": "small", "maxpat": "512"})
					add(map[string]string{"replica": "3", "attempts": "2", "extra": extra, "td": "small", "ready": "1"})
				}
			}
			return jobs
		},
		MinCases:    map[string]int{"quick": 60, "thorough": 200},
		Assumptions: []string{"liveness is decided as bounded progress within the bound the statement itself gives (lifetime of the order; ten intervals when no replacement exists)"}})
	check.RegisterSpec(&check.Spec{Prop: "C18", Level: "exploration",
		Rule: "a lifecycle walk (with block rewards, debts, renewals, migrations, in-flight orders, pending schedules, fault reports and recoveries by a fishman) runs to a seeded point; the application state is exported, validated with ModuleBasics.ValidateGenesis and fed to InitChain of a fresh application; every raw key/value pair of the six custom stores and every module-account balance is compared; then both chains receive the identical continuation (same blocks and signed transactions, recorded from the original) and are compared again. A case is the bucketed shape of the exported state (orders, shards, models, pending timeouts/expiries, debts, fault rows, fishing rewards, in-flight orders); distinct_nontrivial counts distinct shapes.",
		Jobs: func(tier string, seed int64) []check.Job {
			n := 5
			args := map[string]string{"ops": "30", "cont": "20"}
			if tier == "thorough" {
				n = 64
				args = map[string]string{"ops": "70", "cont": "40", "drain": "1"}
			}
			var jobs []check.Job
			for i := 0; i < n; i++ {
				a := map[string]string{"profile": []string{"mixed", "renewheavy", "timeouts", "migrate", "rewards"}[i%5]}
				for k, v := range args {
					a[k] = v
				}
				if i%5 == 4 {
					a["ops"] = "12"
				}
				if i == 0 {
					a["recipe"] = "1"
					a["ops"] = "8"
				}
				if i%5 == 1 {
					a["debt"] = "1" // a pledge-debt row at export time
				}
				jobs = append(jobs, check.Job{Prop: "C18", Scenario: "genesis", Seed: seed*67867967 + int64(i), Args: a})
			}
			return jobs
		},
		MinCases:    map[string]int{"quick": 3, "thorough": 10},
		Assumptions: []string{"stores are compared by raw key/value iteration of the six custom store keys; SDK module state (bank, staking, auth) is compared only through module-account balances and the continuation's effects"}})
	monitorFactories["C19"] = func() []world.Monitor { return []world.Monitor{&C19{}} }
	monitorFactories["C20"] = func() []world.Monitor { return []world.Monitor{&C20{}} }
	simpleJobs := func(prop, scn string, qn, tn int, qargs, targs map[string]string) func(string, int64) []check.Job {
		return func(tier string, seed int64) []check.Job {
			n, args := qn, qargs
			if tier == "thorough" {
				n, args = tn, targs
			}
			var jobs []check.Job
			for i := 0; i < n; i++ {
				jobs = append(jobs, check.Job{Prop: prop, Scenario: scn, Seed: seed*15485863 + int64(i)*7 + int64(len(prop)), Args: args})
			}
			return jobs
		}
	}
	replicaJobs := func(prop string, quick, thorough []map[string]string) func(string, int64) []check.Job {
		return func(tier string, seed int64) []check.Job {
			list := quick
			if tier == "thorough" {
				list = thorough
			}
			var jobs []check.Job
			for i, a := range list {
				jobs = append(jobs, check.Job{Prop: prop, Scenario: "replica", Seed: seed*32452843 + int64(i)*11, Args: a})
			}
			return jobs
		}
	}
	c01plans := "plain,plain-2,clock3600,clock-86400,noise-1,noise-2,restart7"
	var c01thorough []map[string]string
	for i, l := range []string{"renewals:multiversion-migrate", "renewals:migrated", "life:mixed", "life:renewheavy", "life:timeouts", "life:migrate", "life:rewards", "staking", "staking", "authz", "actor", "didreg", "faults", "life:mixed", "staking", "didreg", "life:migrate", "faults"} {
		a := map[string]string{"leader": l, "plans": c01plans + ",plain-3,noise-3", "ops": "150"}
		if l == "staking" {
			a["stores"] = "1"
		}
		if strings.HasPrefix(l, "life") || strings.HasPrefix(l, "renewals") || l == "faults" {
			// thousands of blocks: restart every few hundred commits instead of every seventh
			a["plans"] = strings.Replace(a["plans"], "restart7", "restart397", 1)
		}
		if i%4 == 1 {
			a["plans"] += ",racenoise"
		}
		if l == "authz" || l == "actor" {
			a["rounds"] = "1"
			delete(a, "ops")
		}
		c01thorough = append(c01thorough, a)
	}
	c01thorough = append(c01thorough, map[string]string{"leader": "selection", "plans": "plain,plain-2,plain-3,noise-1,noise-2,restart5", "hugepop": "1", "orders": "10", "direct": "0"})
	check.RegisterSpec(&check.Spec{Prop: "C01", Level: "exploration",
		Rule: "a leader executes a seeded workload (lifecycle walk, staking/role walk, did registry walk, authorization matrix, fault walk, placement over ~100 eligible providers with draws that exhaust the block-hash seed) while its consensus request stream is recorded; follower processes replay the identical stream under perturbations that must not matter: another process (different map seed), wall clock +1 h and -1 day (virtual clock), CheckTx/Simulate/Query calls inserted between consensus calls, restarts; every InitChain/BeginBlock/DeliverTx/EndBlock/Commit response (code, data, gas, events, validator updates, app hash; log/info text excluded) is compared byte-wise with the leader's. A race-detector build replays one stream with Simulate/Query goroutines running concurrently; only reports whose access site is inside the repository count. A case is (perturbation kind, leader workload, restarts/kills bucket, noise yes/no); distinct_nontrivial counts distinct cases.",
		Jobs: replicaJobs("C01",
			[]map[string]string{
				{"leader": "staking", "plans": c01plans + ",racenoise", "ops": "160", "stores": "1"},
				{"leader": "didreg", "plans": "plain,clock3600,clock-86400,noise-1,restart3", "ops": "120"},
				{"leader": "life:mixed", "plans": "plain,plain-2,clock3600,noise-1,restart401", "ops": "30"},
				{"leader": "authz", "plans": "plain,noise-1,noise-2,restart5", "rounds": "1", "relayers": "1"},
				{"leader": "renewals:multiversion-migrate", "plans": "plain,plain-2,plain-3,plain-4,noise-1"},
				{"leader": "selection", "plans": "plain,plain-2,noise-1,restart5", "hugepop": "1", "orders": "4", "direct": "0"},
			}, c01thorough),
		MinCases:    map[string]int{"quick": 6, "thorough": 12},
		Assumptions: []string{"only amd64 is available: cross-architecture floating point (Node.Reputation is float32) cannot be observed", "SDK-internal races (baseapp, params) are counted but not attributed to this repository"}})
	c03plans := "restart1,restart3,crash1,crash2"
	var c03thorough []map[string]string
	for i, l := range []string{"staking", "staking", "staking", "staking", "staking", "didreg", "authz", "faults", "life:mixed", "life:renewheavy", "selection"} {
		a := map[string]string{"leader": l, "plans": c03plans, "ops": "160", "fpar": "4"}
		if l == "staking" && i%2 == 0 {
			a["stores"] = "1"
		}
		if l == "selection" {
			a["direct"] = "0"
			a["orders"] = "20"
			a["plans"] = "restart3,crash2"
		}
		if l == "faults" {
			// thousands of blocks (penalty ticks): sparse restarts
			a["ops"] = "120"
			a["plans"] = "restart211,crash2"
		}
		if l[:4] == "life" {
			a["plans"] = "restart97,restart211,crash3"
			a["ops"] = "60"
		}
		if l == "authz" {
			a["rounds"] = "1"
			delete(a, "ops")
		}
		c03thorough = append(c03thorough, a)
	}
	check.RegisterSpec(&check.Spec{Prop: "C03", Level: "fault_enumeration",
		Rule: "crash points are enumerated over a recorded leader stream: a follower over an on-disk goleveldb is stopped and restarted in a NEW process after every committed height (restart1), after every third (restart3), and is killed in the middle of a block after every DeliverTx (crash1) / every second one (crash2), the block then being replayed from its BeginBlock as Tendermint does; leader workloads contain staking transactions that fail after the shares hook ran and out-of-gas aborts between the hook pair. Every response is compared with the uninterrupted leader's. A case is (plan, leader workload, restarts/kills bucket); distinct_nontrivial counts distinct cases; counters report restarts and kills actually performed.",
		Jobs: replicaJobs("C03",
			[]map[string]string{
				{"leader": "staking", "plans": c03plans, "ops": "70"},
				{"leader": "staking", "plans": "restart1,restart2,crash1", "ops": "60", "stores": "1"},
				{"leader": "didreg", "plans": "restart1,crash1", "ops": "60"},
				{"leader": "authz", "plans": "restart1,crash2", "rounds": "1", "relayers": "1"},
			}, c03thorough),
		MinCases:    map[string]int{"quick": 4, "thorough": 8},
		Assumptions: []string{"a restart is a new OS process over the same goleveldb directory; the leader runs in one process without interruption"}})
	monitorFactories["C02"] = func() []world.Monitor { return []world.Monitor{&C02{}} }
	check.RegisterSpec(&check.Spec{Prop: "C02", Level: "exploration",
		Rule: "every ABCI call (and every direct call of the selection functions) runs under recover() and a CPU-time watchdog (a call burning more than 60 CPU-seconds is declared non-terminating; the largest terminating call observed is reported). Workloads: adversarial field values for every message (sizes 0..2^64-1, replicas <=0/huge, durations up to 2^64-1, timeouts 1..2^31-1, ids of 35/36/37 characters, separator-only commit ids, invalid cids/peers/validators) followed by block advance across every scheduled height; generated node populations (3..160 nodes, status bits, reputations around the floor, capacities around the shard size, 0..3 super nodes, stale super-node cursors) with replica counts around the eligible population, silent providers and migrations; direct calls of RandomSP / RandomIndex with seeds {empty, 1 byte, tiny, real 32-byte hashes} and counts near totals; a sweep of parameter sets that pass validation (block reward 0..8e14 around the 4e14 total, baseline, APY, halving/adjustment periods from 11, offline trigger from 1, thresholds); a lone provider adding and withdrawing capacity in unaligned amounts down to nothing with rewards flowing; a did:sid owner re-pointing its payment address (second cosmos account, eip155 accounts under both chain references) while orders are in flight that are then refunded by the end blocker, a cancel and a terminate; and the lifecycle / staking / did / fault / authorization walks of the other checks. A halt is a panic escaping InitChain/BeginBlock/EndBlock/Commit or a watchdog firing; a panic recovered inside DeliverTx is compliant and counted. A case is (transaction kind, result code) or (block housekeeping kind); distinct_nontrivial counts distinct cases.",
		Jobs: func(tier string, seed int64) []check.Job {
			var jobs []check.Job
			add := func(scn string, n int, args map[string]string) {
				for i := 0; i < n; i++ {
					a := map[string]string{}
					for k, v := range args {
						a[k] = v
					}
					if scn == "config" {
						a["config"] = fmt.Sprint(int(seed)*7 + i)
					}
					if scn == "life" {
						a["profile"] = []string{"mixed", "renewheavy", "timeouts", "migrate", "rewards"}[i%5]
					}
					jobs = append(jobs, check.Job{Prop: "C02", Scenario: scn, Seed: seed*49979687 + int64(len(jobs)), Args: a})
				}
			}
			if tier == "thorough" {
				add("hostile", 10, map[string]string{"n": "400"})
				add("selection", 24, map[string]string{"direct": "3000", "orders": "16"})
				add("selection", 10, map[string]string{"direct": "3000", "orders": "10", "bigpop": "1"})
				add("selection", 6, map[string]string{"direct": "500", "orders": "8", "hugepop": "1"})
				add("selection", 4, map[string]string{"direct": "100", "orders": "4", "tightsuper": "1"})
				add("config", 120, map[string]string{"ops": "40"})
				add("life", 20, map[string]string{"ops": "110", "bigtimeout": "1"})
				add("staking", 6, map[string]string{"ops": "600", "offline": "40"})
				add("faults", 4, map[string]string{"ops": "500"})
				add("didreg", 4, map[string]string{"ops": "800"})
				add("authz", 2, map[string]string{"rounds": "1", "relayers": "2"})
				add("actor", 2, map[string]string{"rounds": "3"})
				add("genesis", 10, map[string]string{"profile": "renewheavy", "ops": "60", "cont": "60", "drain": "1"})
				add("payaddr-switch", 8, map[string]string{"rounds": "6"})
				add("lone-pledge", 8, map[string]string{"rounds": "8"})
				for _, m := range []string{"migrated", "debt-expire", "debt-release", "queued", "afterroll", "shorter", "longer", "term-reassign", "fp-reassign", "multiversion-migrate", "unaligned", "tiny-reduce", "fp-renewed", "double-migrate"} {
					add("renewals", 3, map[string]string{"mode": m})
				}
			} else {
				add("hostile", 2, map[string]string{"n": "120"})
				add("selection", 3, map[string]string{"direct": "500", "orders": "8"})
				add("selection", 1, map[string]string{"direct": "500", "orders": "6", "bigpop": "1"})
				add("selection", 1, map[string]string{"direct": "100", "orders": "4", "hugepop": "1"})
				add("selection", 1, map[string]string{"direct": "50", "orders": "3", "tightsuper": "1"})
				add("config", 12, map[string]string{"ops": "14"})
				add("life", 2, map[string]string{"ops": "40", "bigtimeout": "1"})
				add("staking", 1, map[string]string{"ops": "150", "offline": "40"})
				add("renewals", 1, map[string]string{"mode": "migrated"})
				add("renewals", 1, map[string]string{"mode": "debt-expire"})
				add("renewals", 1, map[string]string{"mode": "queued"})
				add("genesis", 1, map[string]string{"profile": "mixed", "ops": "25", "cont": "30", "recipe": "1"})
				add("payaddr-switch", 2, map[string]string{"rounds": "4"})
				add("lone-pledge", 2, map[string]string{"rounds": "8"})
			}
			return jobs
		},
		Post:        c02Post,
		MinCases:    map[string]int{"quick": 40, "thorough": 80},
		Assumptions: []string{"non-termination is decided by a CPU-time budget far above any terminating call (evidence, not proof)", "single-denomination genesis files built by the harness"}})
	c15life := lifeJobs("C15", 2, 16, nil)
	check.RegisterSpec(&check.Spec{Prop: "C15", Level: "exploration",
		Rule: "generated node populations (status bits, reputations 0/7999.5/8000/8000.5/10000, roles, capacities shardSize-1/shardSize/shardSize+1/large, last-alive heights) with stores of replica 1..eligible+1, silent providers (timeout re-assignment with the real ignore lists) and migrations through the ABCI; plus direct calls of RandomSP/RandomIndex on cache-branched contexts with seeds {empty, 1 byte, tiny, 32-byte hashes}, random ignore lists, counts near totals and stale super-node cursors. The oracle evaluates the eligibility predicate on the snapshot immediately before each selection and compares with the shards that appear. A case is (selection kind, role of the chosen node, population bucket, shards chosen) or (direct call shape); distinct_nontrivial counts distinct cases.",
		Jobs: func(tier string, seed int64) []check.Job {
			jobs := c15life(tier, seed)
			n, direct := 4, "400"
			if tier == "thorough" {
				n, direct = 40, "3000"
			}
			for i := 0; i < n; i++ {
				a := map[string]string{"direct": direct, "orders": "12"}
				if i%4 == 3 {
					a["bigpop"] = "1"
				}
				jobs = append(jobs, check.Job{Prop: "C15", Scenario: "selection", Seed: seed*86028121 + int64(i), Args: a})
			}
			jobs = append(jobs, check.Job{Prop: "C15", Scenario: "selection", Seed: seed*86028121 + 1000, Args: map[string]string{"direct": "100", "orders": "4", "hugepop": "1"}})
			jobs = append(jobs, check.Job{Prop: "C15", Scenario: "selection", Seed: seed*86028121 + 1001, Args: map[string]string{"direct": "50", "orders": "3", "tightsuper": "1"}})
			return jobs
		},
		MinCases:    map[string]int{"quick": 20, "thorough": 40},
		Assumptions: []string{"eligibility is evaluated on the state read immediately before the transaction / end block"}})
	check.RegisterSpec(&check.Spec{Prop: "C19", Level: "exploration",
		Rule:        "seeded sequences of report / recover messages by {three fishmen, ordinary node, non-node, provider} against stored shards with contents {matching, wrong order, wrong data id, wrong shard, the order's own commit id, shard of another provider, data id of another order, provider mismatch, duplicates, expired targets}, interleaved with block advance across 600-block penalty ticks and shard expiry; the oracle diffs the raw fault table, all balances, orders, shards and pledges around every message. A case is (message, reporter class / content class, accepted, table changed); distinct_nontrivial counts distinct cases.",
		Jobs:        simpleJobs("C19", "faults", 4, 32, map[string]string{"ops": "150"}, map[string]string{"ops": "900"}),
		MinCases:    map[string]int{"quick": 30, "thorough": 60},
		Assumptions: []string{"fault rows are read raw from the node store (there is no export of them)"}})
	check.RegisterSpec(&check.Spec{Prop: "C20", Level: "exploration",
		Rule: "seeded sequences of delegate / undelegate (partial, full) / redelegate / validator creation and self-unbonding by four nodes, two third-party delegators and up to three validators, pledge add/remove around the capacity threshold, status resets, a validator slashed for double-signing (tokens < shares) with a node steered to just below / above / below the share threshold on it, staking transactions that fail after the shares hook (amount above balance) or run out of gas mid-message; after every transaction and block the role predicate (capacity >= threshold and own delegation / validator shares >= threshold) is recomputed from staking and pledge queries for every super node, and promotions are checked against the declared status. A case is (operation, number of super nodes after it) or (promotion/demotion cause); distinct_nontrivial counts distinct cases.",
		Jobs: withExtra(withExtra(simpleJobs("C20", "staking", 4, 32, map[string]string{"ops": "200"}, map[string]string{"ops": "1200"}),
			simpleJobs("C20", "staking", 3, 24, map[string]string{"ops": "150", "stores": "1"}, map[string]string{"ops": "900", "stores": "1"})),
			simpleJobs("C20", "staking", 2, 12, map[string]string{"ops": "100", "slash": "1"}, map[string]string{"ops": "600", "slash": "1"})),
		MinCases:    map[string]int{"quick": 12, "thorough": 20},
		Assumptions: []string{"the role predicate is recomputed from the staking keeper's delegation and validator records"}})
	monitorFactories["C17"] = func() []world.Monitor { return []world.Monitor{NewC17()} }
	check.RegisterSpec(&check.Spec{Prop: "C17", Level: "exploration",
		Rule: "seeded sequences of binding / key-rotation with unbinding / payment-address updates by arbitrary accounts, with proofs {valid, signed by another key, stale, signed for another DID and resubmitted, old proof with a fresh timestamp field, eip155 valid/corrupt, malformed signature strings and account ids}; registry invariants are evaluated on the exported did state after every transaction and a transition oracle decides accepted bindings/rotations from proof validity known by construction. A case is (request kind / proof or creator class, accepted or rejected); distinct_nontrivial counts distinct cases.",
		Jobs: func(tier string, seed int64) []check.Job {
			n, ops := 4, "150"
			if tier == "thorough" {
				n, ops = 32, "1500"
			}
			var jobs []check.Job
			for i := 0; i < n; i++ {
				jobs = append(jobs, check.Job{Prop: "C17", Scenario: "didreg", Seed: seed*9973 + int64(i), Args: map[string]string{"ops": ops}})
			}
			return jobs
		},
		MinCases:    map[string]int{"quick": 20, "thorough": 30},
		Assumptions: []string{"validity of every proof is known by construction from the request factory", "wall clock of the node equals block time (virtual clock)"}})
	monitorFactories["C10"] = func() []world.Monitor { return []world.Monitor{&C10{}} }
	c10life := lifeJobs("C10", 2, 24, nil)
	check.RegisterSpec(&check.Spec{Prop: "C10", Level: "exploration",
		Rule: "an attacker node whose own TxAddresses list names the victims (gateway, its hot key, providers, owners' accounts) and a plain attacker account send cancel / complete / ready / migrate / store of a captured owner-signed proposal / store on a sponsor / node messages against other parties' objects, with the claimed provider set to itself, the victim gateway, the victim provider and a non-node; rightful actors are interleaved as controls; lifecycle walks ride along. The oracle decides every ACCEPTED transaction from the pre-state: who may report a shard, cancel, make ready, migrate, be charged, and whose node/pledge/balance a node message touched. A case is (message/attacker/claimed provider, accepted or rejected); distinct_nontrivial counts distinct cases.",
		Jobs: func(tier string, seed int64) []check.Job {
			jobs := c10life(tier, seed)
			n, rounds := 2, "2"
			if tier == "thorough" {
				n, rounds = 12, "6"
			}
			for i := 0; i < n; i++ {
				jobs = append(jobs, check.Job{Prop: "C10", Scenario: "actor", Seed: seed*6007 + int64(i), Args: map[string]string{"rounds": rounds}})
			}
			return jobs
		},
		MinCases:    map[string]int{"quick": 40, "thorough": 60},
		Assumptions: []string{"the transaction signer is known from the request factory; entitlement is evaluated on the state immediately before the transaction"}})
	monitorFactories["C09"] = func() []world.Monitor { return []world.Monitor{&C09{}, NewC16()} }
	check.RegisterSpec(&check.Spec{Prop: "C09", Level: "exploration",
		Rule: "adversary matrix: request type {update, force-push, renew, terminate, permission} x signer {owner, read-write grantee, read-only grantee, stranger, revoked grantee} x relayer {named gateway, its hot key, another gateway, non-node} x mutation {none, payload altered after signing, replayed signature of another request, garbage JWS, empty JWS, owner field of the victim, kid of the victim signed with another key, sid kid naming a foreign document version, commit ids embedding the data id / with empty base / separators}, against models of a did:key and a did:sid owner; the oracle compares the full projection of the target model (metadata, alias, orders, shards, expiry schedule) before and after each request whose authorization is known by construction. A case is (type/signer/mutation/relayer, accepted or rejected); distinct_nontrivial counts distinct cases.",
		Jobs: func(tier string, seed int64) []check.Job {
			n, rounds, rel := 2, "1", "2"
			if tier == "thorough" {
				n, rounds, rel = 16, "3", "4"
			}
			var jobs []check.Job
			for i := 0; i < n; i++ {
				jobs = append(jobs, check.Job{Prop: "C09", Scenario: "authz", Seed: seed*7919 + int64(i), Args: map[string]string{"rounds": rounds, "relayers": rel}})
			}
			return jobs
		},
		MinCases:    map[string]int{"quick": 100, "thorough": 300},
		Assumptions: []string{"authorization of each probe is known by construction from the request factory (which key signed which bytes, role of that DID for the model at that moment)"}})

	check.RegisterSpec(&check.Spec{Prop: "C13", Level: "exploration",
		Rule: "seeded random walks over the order lifecycle (store/ready/complete/update/force-push/renew/terminate/cancel/migrate/claim/capacity changes, silent providers, block advance across every scheduled height); after every block all relations are evaluated on the committed state. A case is the shape (bucketed counts of orders, shards, models, pending timeouts, pending expiries) of a state on which the relations were evaluated; distinct_nontrivial counts distinct shapes with at least one order or model.",
		Jobs: withExtra(withExtra(lifeJobs("C13", 5, 64, nil), recipes("C13", "migrated", "afterroll", "longer", "tiny-reduce", "double-migrate", "fp-renewed", "terminate+twin", "migrated+twin", "term-migrating-renewed", "fp-migrating-renewed", "cancel-old-expired", "exam-during-migration", "renew-after-replacement", "longer+twinfirst")), func(tier string, seed int64) []check.Job {
			return []check.Job{{Prop: "C13", Scenario: "recreate", Seed: seed*15487469 + 1, Args: map[string]string{"mode": "two-unnamed", "alias": "none"}}, {Prop: "C13", Scenario: "recreate", Seed: seed*15487469 + 2, Args: map[string]string{"mode": "cancel", "alias": "none"}}}
		}),
		MinCases:    map[string]int{"quick": 10, "thorough": 30},
		Assumptions: []string{"state is read through the keepers' own getters over the committed multistore", "workloads reach only the states the seeded walks produce"}})
	check.Register("recreate", scnRecreate)
	check.Register("renewals", scnRenewRecipes)
	check.Register("versions", scnVersions)
	lifeRule := "seeded random walks over the order lifecycle — store (sizes around the 1e-6 price rounding, replica 1-3, durations 3600-6000, sponsored payment, owner-submitted + Ready), staggered completion with silent providers, update, force-push, renew (several in a row, shorter and longer), terminate at every phase, cancel, migrate, claim, capacity add/remove, a provider without liquid balance (debt paths) — with block advance to just before / at / after every scheduled height and a final drain across all schedules; five weight profiles. "
	check.RegisterSpec(&check.Spec{Prop: "C04", Level: "exploration",
		Rule:        lifeRule + "The monitor decides every store/renew charge against the quote and the rightful payer, classifies every transfer touching the order/market escrows, keeps a reference income per provider (unit price x bytes x blocks over observed holdings) and a conservation balance with a dust bound of one coin per charge/refund settlement. A case is a charge shape (size, replicas, sponsored), an ending path (expiry, rotation to renewal, terminate, cancel, timeout-cancel, replica reduction, force-push) or a claim class; distinct_nontrivial counts distinct cases.",
		Jobs:        withExtra(lifeJobs("C04", 5, 64, nil), recipes("C04", "shorter", "queued", "migrated", "debt-release", "term-reassign", "fp-reassign", "fp-renewed", "double-migrate", "terminate+twin", "renew-between-expiries", "dust-claims")),
		MinCases:    map[string]int{"quick": 12, "thorough": 25},
		Assumptions: []string{"bank transfer events are complete; prices are exact in 18 decimals"}})
	check.RegisterSpec(&check.Spec{Prop: "C05", Level: "exploration",
		Rule: lifeRule + "Plus recipes that cancel / time out / terminate and then re-create the same data id. For every order that ends without a completed shard the monitor compares refund vs charge, existence of order and shards, provider rows across the cancel, and the model against its snapshot before the store (or its absence incl. alias and schedule entry). A case is (ending by tx or end block, existing model or new, re-assignments so far, operation, order status); distinct_nontrivial counts distinct cases.",
		Jobs: withExtra(lifeJobs("C05", 5, 48, nil), func(tier string, seed int64) []check.Job {
			var jobs []check.Job
			n := 1
			if tier == "thorough" {
				n = 6
			}
			for i := 0; i < n; i++ {
				for _, m := range []string{"cancel", "timeout", "terminate-inflight"} {
					jobs = append(jobs, check.Job{Prop: "C05", Scenario: "recreate", Seed: seed*373587883 + int64(len(jobs)), Args: map[string]string{"mode": m}})
				}
				for _, m := range []string{"cancel", "timeout"} {
					jobs = append(jobs, check.Job{Prop: "C05", Scenario: "recreate", Seed: seed*373587883 + int64(len(jobs)), Args: map[string]string{"mode": m, "alias": "none"}})
				}
				for _, m := range []string{"update-cancel", "update-timeout"} {
					jobs = append(jobs, check.Job{Prop: "C05", Scenario: "recreate", Seed: seed*373587883 + int64(len(jobs)), Args: map[string]string{"mode": m}})
				}
				for _, m := range []string{"update-cancel", "update-timeout"} {
					jobs = append(jobs, check.Job{Prop: "C05", Scenario: "recreate", Seed: seed*373587883 + int64(len(jobs)), Args: map[string]string{"mode": m, "renewed": "1"}})
				}
			}
			return jobs
		}),
		MinCases:    map[string]int{"quick": 4, "thorough": 8},
		Assumptions: []string{"the payer is the account debited by the store transaction"}})
	check.RegisterSpec(&check.Spec{Prop: "C06", Level: "exploration",
		Rule: lifeRule + "Plus a recipe with a sponsor-paid order whose owner DID has no payment address (refund into the did module). On every block-boundary snapshot the four escrow inequalities are evaluated against liabilities recomputed from the exported records; entitled payouts that fail are flagged. A case is the bucketed shape of a state (orders, live shards, queued renewals, debts, rewards, DID balances); distinct_nontrivial counts distinct shapes.",
		Jobs: withExtra(lifeJobs("C06", 5, 48, nil), func(tier string, seed int64) []check.Job {
			return append(recipes("C06", "debt-release", "queued", "debt-expire", "term-reassign", "debt-multi", "renew-between-expiries", "unaligned", "dust-claims", "debt-small-release")(tier, seed), check.Job{Prop: "C06", Scenario: "sponsored-nopay", Seed: seed*472882027 + 1})
		}),
		MinCases:    map[string]int{"quick": 8, "thorough": 16},
		Assumptions: []string{"liabilities are recomputed from exported module state"}})
	check.RegisterSpec(&check.Spec{Prop: "C07", Level: "exploration",
		Rule: lifeRule + "For every transaction, begin block and end block the monitor compares, per provider, coins moved to/from the node escrow with the change of recorded collateral net of debt, checks recipients, withdrawal against free capacity of the pre-state, and row bounds; at the end of drained walks and in the lone-provider scenario (capacity added in sizes around the 1e6-byte pricing unit) a provider that stores nothing asks for its whole capacity back and the whole capacity pledge has to return. A case is (operation, debts present, number of node-escrow flows) or (withdrawal: leaves zero free / capacity in use); distinct_nontrivial counts distinct cases.",
		Jobs: withExtra(withExtra(lifeJobs("C07", 5, 48, nil), recipes("C07", "shorter", "longer", "debt-release", "debt-expire", "migrated", "fp-renewed", "longer+twin", "debt-multi", "debt-small-release")),
			simpleJobs("C07", "lone-pledge", 1, 6, map[string]string{"rounds": "8"}, map[string]string{"rounds": "8"})),
		MinCases:    map[string]int{"quick": 10, "thorough": 20},
		Assumptions: []string{"reward claims are decided by C08"}})
	check.RegisterSpec(&check.Spec{Prop: "C08", Level: "exploration",
		Rule: "lifecycle walks with block rewards switched on (reward 1000, pledge mostly below baseline => baseline-limited minting; capacity changes and claims at random heights) plus a parameter sweep (block reward from 1 to above the 4e14 total, baselines, APYs, halving/adjustment periods from 11). Per block: supply delta vs node-module mint, cap by reward >> age and baseline rate, no mint without pledge, counter == minted; per claim: whole-coin part less debt; per provider: claimed+claimable vs exact pro-rata share in rationals. A case is (mint: age, below baseline, providers) or (claim: positive, with debt); distinct_nontrivial counts distinct cases.",
		Jobs: func(tier string, seed int64) []check.Job {
			var jobs []check.Job
			n, cfg := 3, 6
			if tier == "thorough" {
				n, cfg = 24, 120
			}
			for i := 0; i < n; i++ {
				a := map[string]string{"profile": "rewards"}
				if i%2 == 1 {
					a["baseline"] = "1000" // below the pledge: the full block reward is minted
				}
				jobs = append(jobs, check.Job{Prop: "C08", Scenario: "life", Seed: seed*573259391 + int64(i), Args: a})
			}
			for i := 0; i < n; i += 2 {
				// later halving ages (cumulative reward preset in genesis), pledge below the baseline
				jobs = append(jobs, check.Job{Prop: "C08", Scenario: "life", Seed: seed*573259391 + 3000 + int64(i), Args: map[string]string{"profile": "rewards", "age": fmt.Sprint(1 + (i/2)%3)}})
			}
			for i := 0; i < cfg; i++ {
				jobs = append(jobs, check.Job{Prop: "C08", Scenario: "config", Seed: seed*573259391 + 1000 + int64(i), Args: map[string]string{"config": fmt.Sprint(int(seed)*13 + i), "ops": "16"}})
			}
			jobs = append(jobs, recipes("C08", "unaligned", "unaligned", "debt-release+rewards", "debt-expire+rewards", "queued+rewards")(tier, seed)...)
			jobs = append(jobs, check.Job{Prop: "C08", Scenario: "lone-pledge", Seed: seed*573259391 + 5000, Args: map[string]string{"rounds": "8"}})
			return jobs
		},
		MinCases:    map[string]int{"quick": 4, "thorough": 8},
		Assumptions: []string{"the halving age is recomputed in integers, floor(log2(total / not yet minted)), compared with the chain's own and required to be non-decreasing"}})
	check.RegisterSpec(&check.Spec{Prop: "C11", Level: "exploration",
		Rule: lifeRule + "Plus recipes: cancel / timeout / terminate (completed and in flight) followed by re-creation of the same data id and advance across the old and new scheduled heights. The monitor builds the reference timetable from accepted requests and checks existence, provider, capacity accounting, model presence and release at every block boundary. A case is a release class (renewals, migrated, term bucket), an early ending (terminate, force-push), a migration hand-over or a re-creation mode; distinct_nontrivial counts distinct cases.",
		Jobs: withExtra(lifeJobs("C11", 5, 64, nil), func(tier string, seed int64) []check.Job {
			jobs := recipes("C11", "queued", "afterroll", "migrated", "shorter", "double-migrate", "fp-renewed", "terminate+twin", "shorter+twin", "cancel-old-expired", "timeout-old-expired", "exam-during-migration", "shorter+twinfirst", "longer+twinfirst")(tier, seed)
			n := 1
			if tier == "thorough" {
				n = 8
			}
			for i := 0; i < n; i++ {
				for _, m := range []string{"cancel", "timeout", "terminate", "terminate-inflight"} {
					jobs = append(jobs, check.Job{Prop: "C11", Scenario: "recreate", Seed: seed*674506081 + int64(len(jobs)), Args: map[string]string{"mode": m}})
				}
			}
			return jobs
		}),
		MinCases:    map[string]int{"quick": 6, "thorough": 12},
		Assumptions: []string{"requested durations are those of the signed proposals"}})
	c16life := lifeJobs("C16", 3, 40, nil)
	check.RegisterSpec(&check.Spec{Prop: "C16", Level: "exploration",
		Rule: "lifecycle walks (concurrent updates through two gateways, cancels, timeouts, force-pushes) plus the authorization matrix with commit-id shapes {exact base, empty base, substring/prefix of the latest, data id embedded, separators only}; the oracle keeps an id registry and, per model, compares each accepted update's stated base with the last committed version and each history change with append-one / replace-last. A case is (accepted update: base shape, operation, model status) or (history change kind, length); distinct_nontrivial counts distinct cases.",
		Jobs: func(tier string, seed int64) []check.Job {
			jobs := c16life(tier, seed)
			nv := 2
			if tier == "thorough" {
				nv = 12
			}
			for i := 0; i < nv; i++ {
				jobs = append(jobs, check.Job{Prop: "C16", Scenario: "versions", Seed: seed*1000000007 + int64(i), Args: map[string]string{"rounds": "3"}})
			}
			jobs = append(jobs, recipes("C16", "fp-renewed", "fp-renewed")(tier, seed)...)
			n, rounds := 1, "1"
			if tier == "thorough" {
				n, rounds = 8, "2"
			}
			for i := 0; i < n; i++ {
				jobs = append(jobs, check.Job{Prop: "C16", Scenario: "authz", Seed: seed*104729 + int64(i), Args: map[string]string{"rounds": rounds, "relayers": "2"}})
			}
			return jobs
		},
		MinCases:    map[string]int{"quick": 4, "thorough": 6},
		Assumptions: []string{"history is read from the metadata query after every transaction and block"}})
	check.RegisterSpec(&check.Spec{Prop: "C14", Level: "exploration",
		Rule:        "same lifecycle walks; after every block the six aggregate equalities are evaluated per provider and network-wide. A case is the bucketed (providers, live shards, any renewed shard, open debts) shape of a state; distinct_nontrivial counts distinct shapes.",
		Jobs:        withExtra(lifeJobs("C14", 5, 64, nil), recipes("C14", "shorter", "debt-release", "debt-expire", "unaligned", "fp-renewed", "double-migrate", "migrated+twin", "debt-multi", "term-migrating-renewed", "terminate-at-expiry", "fp-at-expiry", "debt-small-release")),
		MinCases:    map[string]int{"quick": 6, "thorough": 12},
		Assumptions: []string{"state is read through the keepers' own getters over the committed multistore"}})
}

func lifeProfile(name string) LifeParams {
	p := DefaultLife()
	switch name {
	case "renewheavy":
		p.Weights["renew"] = 16
		p.Weights["terminate"] = 5
		p.Weights["store"] = 8
		p.PoorSP = true
	case "timeouts":
		p.Silence = 0.5
		p.Weights["jump"] = 14
		p.Weights["cancel"] = 5
		p.Providers = 4
	case "migrate":
		p.Weights["migrate"] = 14
		p.Weights["renew"] = 9
		p.Providers = 6
	case "rewards":
		p.BlockReward = 1000
		p.Weights["claim"] = 12
		p.Weights["addv"] = 6
		p.Weights["removev"] = 6
		rewardRegime(&p)
	}
	return p
}

func scnLife(ctx *check.JobCtx) {
	var mons []world.Monitor
	if ctx.Arg("allmon", "") == "1" {
		mons = allMonitors()
	} else {
		mons = monitorsFor(ctx.Job.Prop)
	}
	w := newLifeWorld(ctx, mons...)
	w.BeginStates = true
	p := lifeProfile(ctx.Arg("profile", "mixed"))
	p.Ops = int(ctx.ArgInt("ops", int64(p.Ops)))
	p.MaxHeight = ctx.ArgInt("maxh", p.MaxHeight)
	p.DrainCap = ctx.ArgInt("draincap", 13000)
	p.DrainAll = ctx.Arg("drainall", "") == "1" || ((ctx.Job.Prop == "C06" || ctx.Job.Prop == "C04" || ctx.Job.Prop == "C07") && ctx.Job.Seed%2 == 0)
	if ctx.Arg("bigtimeout", "") == "1" {
		p.BigTimeout = true
	}
	if bl := ctx.ArgInt("baseline", 0); bl > 0 {
		prev := p.Params
		p.Params = func(np *nodetypes.Params) {
			if prev != nil {
				prev(np)
			}
			np.Baseline = sdk.NewInt64Coin(chain.Denom, bl)
		}
	}
	if age := ctx.ArgInt("age", 0); age > 0 {
		// start in a later halving age with the baseline rate between the halved and the full block reward
		p.StartAge = uint(age)
		prev := p.Params
		p.Params = func(np *nodetypes.Params) {
			if prev != nil {
				prev(np)
			}
			np.AnnualPercentageYield = "2.5"
		}
	}
	l := SetupLife(w, p)
	l.Run()
	w.Sample("%s profile=%s height=%d: %s", ctx.Job.Scenario, ctx.Arg("profile", "mixed"), w.C.Height, traceSummary(w))
	_ = fmt.Sprint
}

// debugging helpers
func DebugLifeWorld(ctx *check.JobCtx) *world.World {
	return newLifeWorld(ctx, monitorsFor(ctx.Job.Prop)...)
}
func LifeProfileDbg(n string) LifeParams               { return lifeProfile(n) }
func DebugLifeWorldAll(ctx *check.JobCtx) *world.World { return newLifeWorld(ctx, allMonitors()...) }

func lifeJobs(prop string, quickN, thoroughN int, extra map[string]string) func(string, int64) []check.Job {
	return func(tier string, seed int64) []check.Job {
		n := quickN
		if tier == "thorough" {
			n = thoroughN
		}
		var jobs []check.Job
		for i := 0; i < n; i++ {
			args := map[string]string{"profile": []string{"mixed", "renewheavy", "timeouts", "migrate", "rewards"}[i%5]}
			for k, v := range extra {
				args[k] = v
			}
			if tier == "thorough" {
				args["ops"] = "110"
			}
			jobs = append(jobs, check.Job{Prop: prop, Scenario: "life", Seed: seed*1000003 + int64(i), Args: args})
		}
		return jobs
	}
}

func withExtra(base func(string, int64) []check.Job, extra func(tier string, seed int64) []check.Job) func(string, int64) []check.Job {
	return func(tier string, seed int64) []check.Job { return append(base(tier, seed), extra(tier, seed)...) }
}

func recipes(prop string, modes ...string) func(tier string, seed int64) []check.Job {
	return func(tier string, seed int64) []check.Job {
		n := 1
		if tier == "thorough" {
			n = 6
		}
		var jobs []check.Job
		for i := 0; i < n; i++ {
			for _, m := range modes {
				jobs = append(jobs, check.Job{Prop: prop, Scenario: "renewals", Seed: seed*941083987 + int64(len(jobs)) + int64(len(prop)), Args: map[string]string{"mode": m}})
			}
		}
		return jobs
	}
}

// rewardRegime makes block rewards actually flow: capacities of tens of thousands of coins, a short halving
// period, so that the baseline-limited rate (pledge x APY / (halving/2)) is tens of coins per block; callers vary
// the baseline above / below the total pledge through Params.
func rewardRegime(p *LifeParams) {
	p.Capacity = 60_000_000_000
	prev := p.Params
	p.Params = func(np *nodetypes.Params) {
		np.HalvingPeriod = 2000
		np.AdjustmentPeriod = 100
		np.Baseline = sdk.NewInt64Coin(chain.Denom, 1_000_000) // above the pledge of a handful of providers: baseline-limited minting
		if prev != nil {
			prev(np)
		}
	}
}
