package props

import (
	"fmt"
	"strings"

	nodetypes "github.com/SaoNetwork/sao/x/node/types"
	sdk "github.com/cosmos/cosmos-sdk/types"
	"saoverif/chain"

	"saoverif/actors"
	"saoverif/check"
	"saoverif/world"

	saotypes "github.com/SaoNetwork/sao/x/sao/types"
)

// scnRenewRecipes: deterministic renewal histories that a random walk needs long to reach.
//
//	shorter      renewal shorter than the running period (no collateral top-up), roll-over, release
//	longer       renewal longer than the running period (top-up), roll-over, release
//	queued       two renewals paid in a row while the first has not started
//	afterroll    second renewal paid after the first has started
//	debt-release provider without liquid balance: long renewal creates collateral debt, then the model is terminated
//	debt-expire  the same, released by expiry
//	migrated     renewal, then migration to another provider, roll-over, release
//	unaligned    capacity withdrawals that are no multiple of the 1e6-byte pricing unit, with block rewards on
func scnRenewRecipes(ctx *check.JobCtx) {
	mode := ctx.Arg("mode", "shorter")
	// "<mode>+rewards": the same recipe with block rewards actually flowing (claims meet debts and renewals)
	// "<mode>+twin": a second model of the other owner is stored and completed in the same blocks with the same
	// duration, so that its shards share every scheduled height with the recipe's model; it is never touched again
	withRewards, withTwin, twinFirst := false, false, false
	if parts := strings.Split(mode, "+"); len(parts) > 1 {
		mode = parts[0]
		for _, f := range parts[1:] {
			withRewards = withRewards || f == "rewards"
			withTwin = withTwin || f == "twin" || f == "twinfirst"
			twinFirst = twinFirst || f == "twinfirst"
		}
	}
	w := newLifeWorld(ctx, monitorsFor(ctx.Job.Prop)...)
	w.BeginStates = true
	p := DefaultLife()
	p.Providers = 4
	p.BlockReward = 1000
	p.PoorSP = mode == "debt-release" || mode == "debt-expire" || mode == "debt-multi" || mode == "debt-small-release"
	if mode == "tiny-reduce" {
		p.Providers = 2 // no spare provider: a silent replica can only be given up
	}
	if withRewards {
		rewardRegime(&p)
	}
	if mode == "unaligned" {
		rewardRegime(&p)
		if ctx.Job.Seed%2 == 0 {
			prev := p.Params
			p.Params = func(np *nodetypes.Params) { prev(np); np.Baseline = sdk.NewInt64Coin(chain.Denom, 1000) }
		}
	}
	l := SetupLife(w, p)
	if w.Halted() {
		w.Finish()
		return
	}
	r := w.Rng
	g := l.GW[0]
	o := l.Owners[r.Intn(2)]
	did := w.NewDataId()
	d1 := uint64(4000 + r.Intn(1500))
	size := []uint64{1_000_000, 2_777_777, 5_000_000}[r.Intn(3)]
	replica := int32(1 + r.Intn(2))
	if p.PoorSP {
		replica = int32(len(l.SP)) // make sure the provider without funds holds a shard ...
		size = 1_000_000           // ... whose first collateral it can still afford
	}
	if mode == "term-reassign" || mode == "fp-reassign" {
		// an unrelated stored order keeps other customers' money in the escrows
		other := w.NewDataId()
		_, o0 := w.Store(world.StoreReq{Owner: l.Owners[1].Id, Gateway: g, DataId: other, CommitId: other, Duration: 6000, Replica: 3, Timeout: 500, Size: 5_000_000})
		w.CompleteAll(o0)
		// replica 2: one provider stores, the other stays silent and is replaced at the first timeout;
		// the owner terminates / force-replaces while the replacement is still pending
		_, oid := w.Store(world.StoreReq{Owner: o.Id, Gateway: g, DataId: did, CommitId: did, Duration: d1, Replica: 2, Timeout: 40, Size: size})
		if od, ok := w.Cur.Orders[oid]; ok && len(od.Shards) > 0 {
			sh := w.Cur.Shards[od.Shards[0]]
			if pr := w.ProviderByAddr(sh.Sp); pr != nil {
				w.Complete(pr.Acct, nil, oid, sh.Size_)
			}
		}
		w.EndBlock()
		w.Advance(int64(41 + r.Intn(30)))
		if mode == "term-reassign" {
			w.Terminate(o.Id, nil, g.Acct, "", did, nil)
		} else {
			md := w.Cur.Metas[did]
			_, fp := w.Store(world.StoreReq{Owner: o.Id, Gateway: g, DataId: did, CommitId: md.Commit + "|" + (did[:30] + "-fp1xxxxxxxxxx")[:36], Duration: 3600, Replica: 1, Timeout: 300, Size: size, Operation: 2, Alias: world.AliasOf(md.Alias)})
			if fp != 0 {
				w.CompleteAll(fp)
			}
		}
		w.EndBlock()
		w.Case("recipe:%s", mode)
		for round := 0; round < 12 && !w.Halted(); round++ {
			next := l.nextScheduled()
			if next == 0 || int64(next) > w.C.Height+40000 {
				break
			}
			w.AdvanceTo(int64(next) + 1)
		}
		for _, sp := range l.SP {
			w.Claim(sp.Acct)
		}
		w.EndBlock()
		w.Sample("recipe %s: %s", mode, traceSummary(w))
		w.Finish()
		return
	}
	if mode == "tiny-reduce" {
		// a tiny file (the refund for a given-up replica truncates to zero), two replicas, one provider silent, no spare
		_, oid := w.Store(world.StoreReq{Owner: o.Id, Gateway: g, DataId: did, CommitId: did, Duration: 3600, Replica: 2, Timeout: int32(20 + r.Intn(30)), Size: uint64(1 + r.Intn(100))})
		if od, ok := w.Cur.Orders[oid]; ok && len(od.Shards) > 0 {
			sh := w.Cur.Shards[od.Shards[r.Intn(len(od.Shards))]]
			if pr := w.ProviderByAddr(sh.Sp); pr != nil {
				w.Complete(pr.Acct, nil, oid, sh.Size_)
			}
		}
		w.EndBlock()
		w.Case("recipe:%s", mode)
		for round := 0; round < 40 && !w.Halted(); round++ {
			next := l.nextScheduled()
			if next == 0 || int64(next) > w.C.Height+40000 {
				break
			}
			w.AdvanceTo(int64(next) + 1)
		}
		w.Advance(5)
		w.Sample("recipe %s: %s", mode, traceSummary(w))
		w.Finish()
		return
	}
	if mode == "fp-renewed" {
		// two committed versions, the latest one renewed (once or twice), then force-pushed
		replica = int32(1 + r.Intn(2))
		_, o1 := w.Store(world.StoreReq{Owner: o.Id, Gateway: g, DataId: did, CommitId: did, Duration: d1, Replica: replica, Timeout: 500, Size: size})
		w.CompleteAll(o1)
		w.EndBlock()
		md := w.Cur.Metas[did]
		_, o2 := w.Store(world.StoreReq{Owner: o.Id, Gateway: g, DataId: did, CommitId: md.Commit + "|" + (did[:28] + "-fpv2xxxxxxxxxxxx")[:36], Duration: d1, Replica: replica, Timeout: 500, Size: size, Alias: world.AliasOf(md.Alias)})
		if o2 != 0 {
			w.CompleteAll(o2)
		}
		w.EndBlock()
		w.Advance(int64(10 + r.Intn(300)))
		w.Renew(o.Id, nil, g.Acct, "", 3600+uint64(r.Intn(2000)), 300, nil, did)
		if r.Intn(2) == 0 {
			w.EndBlock()
			w.Renew(o.Id, nil, g.Acct, "", 3600+uint64(r.Intn(2000)), 300, nil, did)
		}
		w.EndBlock()
		w.Advance(int64(10 + r.Intn(300)))
		md = w.Cur.Metas[did]
		_, o3 := w.Store(world.StoreReq{Owner: o.Id, Gateway: g, DataId: did, CommitId: md.Commit + "|" + (did[:28] + "-fpv3xxxxxxxxxxxx")[:36], Duration: 3600, Replica: replica, Timeout: 500, Size: size, Operation: 2, Alias: world.AliasOf(md.Alias)})
		if o3 != 0 {
			w.CompleteAll(o3)
		}
		w.EndBlock()
		w.Case("recipe:%s:replica=%d,rewards=%v", mode, replica, withRewards)
		for round := 0; round < 12 && !w.Halted(); round++ {
			next := l.nextScheduled()
			if next == 0 || int64(next) > w.C.Height+40000 {
				break
			}
			w.AdvanceTo(int64(next) + 1)
		}
		for _, sp := range l.SP {
			w.Claim(sp.Acct)
		}
		w.EndBlock()
		w.Sample("recipe %s: %s", mode, traceSummary(w))
		w.Finish()
		return
	}
	if mode == "renew-after-replacement" {
		// one of two providers stays silent and is replaced at the examination; the replacement completes and the
		// owner renews right away, before the next examination prunes the given-up shard row
		to := int32(20 + r.Intn(20))
		_, oid := w.Store(world.StoreReq{Owner: o.Id, Gateway: g, DataId: did, CommitId: did, Duration: 3600, Replica: 2, Timeout: to, Size: size})
		if od, ok := w.Cur.Orders[oid]; ok && len(od.Shards) == 2 {
			sh := w.Cur.Shards[od.Shards[r.Intn(2)]]
			if pr := w.ProviderByAddr(sh.Sp); pr != nil {
				w.Complete(pr.Acct, nil, oid, sh.Size_)
			}
			w.EndBlock()
			w.Advance(int64(to) + 1)
			n := w.CompleteAll(oid)
			w.EndBlock()
			w.Advance(int64(r.Intn(int(to) - 3)))
			e := w.Renew(o.Id, nil, g.Acct, "", 3600+uint64(r.Intn(1000)), 300, nil, did)
			w.EndBlock()
			w.Case("recipe:%s:replacement-completed=%d,renew-tx=%v", mode, n, e.OK)
			w.Advance(int64(to) * 2)
			// and once more after the clean-up
			w.Renew(o.Id, nil, g.Acct, "", 3600+uint64(r.Intn(1000)), 300, nil, did)
			w.EndBlock()
		}
		for round := 0; round < 12 && !w.Halted(); round++ {
			next := l.nextScheduled()
			if next == 0 || int64(next) > w.C.Height+40000 {
				break
			}
			w.AdvanceTo(int64(next) + 1)
		}
		w.Sample("recipe %s: %s", mode, traceSummary(w))
		w.Finish()
		return
	}
	if mode == "dust-claims" {
		// a shard earning far less than a coin per block; its providers claim every few blocks for a long time
		_, oid := w.Store(world.StoreReq{Owner: o.Id, Gateway: g, DataId: did, CommitId: did, Duration: 3600, Replica: 2, Timeout: 500, Size: uint64(500 + r.Intn(1500))})
		w.CompleteAll(oid)
		w.EndBlock()
		for k := 0; k < 120 && !w.Halted(); k++ {
			w.Advance(int64(1 + r.Intn(40)))
			for _, sp := range l.SP {
				if r.Intn(2) == 0 {
					w.Claim(sp.Acct)
				}
			}
		}
		w.Case("recipe:%s", mode)
		for round := 0; round < 12 && !w.Halted(); round++ {
			next := l.nextScheduled()
			if next == 0 || int64(next) > w.C.Height+40000 {
				break
			}
			w.AdvanceTo(int64(next) + 1)
			for _, sp := range l.SP {
				w.Claim(sp.Acct)
			}
		}
		w.EndBlock()
		w.Sample("recipe %s: %s", mode, traceSummary(w))
		w.Finish()
		return
	}
	if mode == "renew-between-expiries" {
		// two replicas stored at different heights; the renewal request arrives after the first replica's paid
		// term has run out and before the second one's
		_, oid := w.Store(world.StoreReq{Owner: o.Id, Gateway: g, DataId: did, CommitId: did, Duration: 3600, Replica: 2, Timeout: 1500, Size: size})
		var h1 int64
		if od, ok := w.Cur.Orders[oid]; ok && len(od.Shards) == 2 {
			a, b := w.Cur.Shards[od.Shards[0]], w.Cur.Shards[od.Shards[1]]
			if pr := w.ProviderByAddr(a.Sp); pr != nil {
				w.Complete(pr.Acct, nil, oid, a.Size_)
				h1 = w.C.Height + 1
			}
			w.EndBlock()
			gap := int64(100 + r.Intn(900))
			w.Advance(gap)
			if pr := w.ProviderByAddr(b.Sp); pr != nil {
				w.Complete(pr.Acct, nil, oid, b.Size_)
			}
			w.EndBlock()
			w.AdvanceTo(h1 + 3600 + 1 + int64(r.Intn(int(gap)-2)))
			e := w.Renew(o.Id, nil, g.Acct, "", 3600+uint64(r.Intn(1000)), 300, nil, did)
			w.EndBlock()
			w.Case("recipe:%s:tx-accepted=%v", mode, e.OK)
		}
		for round := 0; round < 12 && !w.Halted(); round++ {
			next := l.nextScheduled()
			if next == 0 || int64(next) > w.C.Height+40000 {
				break
			}
			w.AdvanceTo(int64(next) + 1)
		}
		for _, sp := range l.SP {
			w.Claim(sp.Acct)
		}
		w.EndBlock()
		w.Sample("recipe %s: %s", mode, traceSummary(w))
		w.Finish()
		return
	}
	if mode == "debt-multi" {
		// ONE renewal message for two models that both have a shard on the provider without funds: its balance
		// covers the first collateral top-up but not the second
		did2 := w.NewDataId()
		_, oa := w.Store(world.StoreReq{Owner: o.Id, Gateway: g, DataId: did, CommitId: did, Duration: d1, Replica: replica, Timeout: 500, Size: size})
		_, ob := w.Store(world.StoreReq{Owner: o.Id, Gateway: g, DataId: did2, CommitId: did2, Duration: d1, Replica: replica, Timeout: 500, Size: size})
		w.CompleteAll(oa)
		w.CompleteAll(ob)
		w.EndBlock()
		poor := l.SP[0].Acct.Addr.String()
		bal := w.Cur.BalOf(poor)
		pl := sdk.ZeroInt()
		for _, sh := range sortedShards(w.Cur) {
			if sh.Sp == poor && sh.Status == ShardCompleted {
				pl = sh.Pledge.Amount
			}
		}
		extra := uint64(6000)
		if pl.IsPositive() && bal.IsPositive() {
			// top-up T = 3/4 of the balance:  T <= balance < 2T
			extra = bal.MulRaw(3).QuoRaw(4).MulRaw(int64(d1)).Quo(pl).Uint64()
		}
		w.Advance(int64(10 + r.Intn(200)))
		w.Renew(o.Id, nil, g.Acct, "", d1+extra, 300, nil, did, did2)
		w.EndBlock()
		w.Case("recipe:%s:balance=%s,pledge=%s", mode, bucketInt(bal), bucketInt(pl))
		if r.Intn(2) == 0 {
			w.Advance(int64(50 + r.Intn(300)))
			w.Terminate(o.Id, nil, g.Acct, "", did2, nil)
			w.EndBlock()
		}
		for round := 0; round < 12 && !w.Halted(); round++ {
			next := l.nextScheduled()
			if next == 0 || int64(next) > w.C.Height+60000 {
				break
			}
			w.AdvanceTo(int64(next) + 1)
		}
		for _, sp := range l.SP {
			w.Claim(sp.Acct)
		}
		w.EndBlock()
		w.Sample("recipe %s: %s", mode, traceSummary(w))
		w.Finish()
		return
	}
	if mode == "cancel-old-expired" || mode == "timeout-old-expired" {
		// two committed versions whose paid terms end at different heights; after the older one has expired (its
		// order is gone, its id still heads the model's order list) a further update is proposed and cancelled /
		// left to time out: the rollback recomputes the model's end from the remaining orders
		_, o1 := w.Store(world.StoreReq{Owner: o.Id, Gateway: g, DataId: did, CommitId: did, Duration: 3600, Replica: replica, Timeout: 300, Size: size})
		w.CompleteAll(o1)
		w.EndBlock()
		w.Advance(int64(5 + r.Intn(50)))
		md := w.Cur.Metas[did]
		_, o2 := w.Store(world.StoreReq{Owner: o.Id, Gateway: g, DataId: did, CommitId: md.Commit + "|" + (did[:28] + "-coe2xxxxxxxxxxxx")[:36], Duration: 9000 + uint64(r.Intn(1000)), Replica: replica, Timeout: 300, Size: size, Alias: world.AliasOf(md.Alias)})
		if o2 != 0 {
			w.CompleteAll(o2)
		}
		w.EndBlock()
		// past the first version's end
		w.AdvanceTo(w.C.Height + 3700)
		if md, ok := w.Cur.Metas[did]; ok {
			to := int32(30 + r.Intn(40))
			_, o3 := w.Store(world.StoreReq{Owner: o.Id, Gateway: g, DataId: did, CommitId: md.Commit + "|" + (did[:28] + "-coe3xxxxxxxxxxxx")[:36], Duration: 3600, Replica: 1, Timeout: to, Size: size, Alias: world.AliasOf(md.Alias)})
			w.EndBlock()
			if o3 != 0 {
				if mode == "cancel-old-expired" {
					w.Cancel(g.Acct, o3, g.Acct.Addr.String())
					w.EndBlock()
				} else {
					w.Advance(int64(to)*11 + 5)
				}
			}
			w.Case("recipe:%s:update-accepted=%v", mode, o3 != 0)
		} else {
			w.Case("recipe:%s:model-gone-early", mode)
		}
		w.Advance(3)
		for round := 0; round < 12 && !w.Halted(); round++ {
			next := l.nextScheduled()
			if next == 0 || int64(next) > w.C.Height+40000 {
				break
			}
			w.AdvanceTo(int64(next) + 1)
		}
		w.Sample("recipe %s: %s", mode, traceSummary(w))
		w.Finish()
		return
	}
	if mode == "multiversion-migrate" {
		// three committed versions of one model on (almost) all providers, then every provider migrates it away
		replica = int32(len(l.SP) - 1)
		size = 1000
	}
	var twinOid uint64
	mkTwin := func() {
		o2 := l.Owners[0]
		if o2 == o {
			o2 = l.Owners[1]
		}
		td := w.NewDataId()
		_, twinOid = w.Store(world.StoreReq{Owner: o2.Id, Gateway: g, DataId: td, CommitId: td, Duration: d1, Replica: replica, Timeout: 500, Size: size})
	}
	if withTwin && twinFirst {
		mkTwin() // the twin is listed BEFORE the recipe's model at every shared schedule height
	}
	_, oid := w.Store(world.StoreReq{Owner: o.Id, Gateway: g, DataId: did, CommitId: did, Duration: d1, Replica: replica, Timeout: 500, Size: size})
	if withTwin && !twinFirst {
		mkTwin()
	}
	w.CompleteAll(oid)
	if twinOid != 0 {
		w.CompleteAll(twinOid)
	}
	w.EndBlock()
	if mode == "multiversion-migrate" {
		for v := 1; v <= 2; v++ {
			md := w.Cur.Metas[did]
			_, uo := w.Store(world.StoreReq{Owner: o.Id, Gateway: g, DataId: did, CommitId: md.Commit + "|" + (fmt.Sprintf("%s-mv%d", did[:28], v) + "xxxxxxxxxxxx")[:36], Duration: d1, Replica: replica, Timeout: 500, Size: size, Alias: world.AliasOf(md.Alias)})
			if uo != 0 {
				w.CompleteAll(uo)
			}
			w.EndBlock()
		}
		for _, sp := range l.SP {
			w.Migrate(sp.Acct, did)
			w.EndBlock()
		}
		if md, ok := w.Cur.Metas[did]; ok {
			for _, id := range md.Orders {
				w.CompleteAll(id)
			}
		}
		w.EndBlock()
		w.Case("recipe:%s", mode)
		w.Advance(20)
		w.Sample("recipe %s: %s", mode, traceSummary(w))
		w.Finish()
		return
	}
	if mode != "exam-during-migration" {
		w.Advance(int64(10 + r.Intn(500)))
	}
	renew := func(d uint64) { w.Renew(o.Id, nil, g.Acct, "", d, 300, nil, did) }
	switch mode {
	case "terminate-at-expiry", "fp-at-expiry":
		// the owner ends the version in the very block whose end blocker would release its shards
		if od, ok := w.Cur.Orders[oid]; ok && len(od.Shards) > 0 {
			sh := w.Cur.Shards[od.Shards[0]]
			w.AdvanceTo(int64(sh.CreatedAt+sh.Duration) - 1)
			if mode == "terminate-at-expiry" {
				w.Terminate(o.Id, nil, g.Acct, "", did, nil)
			} else if md, ok := w.Cur.Metas[did]; ok {
				_, fp := w.Store(world.StoreReq{Owner: o.Id, Gateway: g, DataId: did, CommitId: md.Commit + "|" + (did[:28] + "-fpaexxxxxxxxxxxx")[:36], Duration: 3600, Replica: 1, Timeout: 300, Size: size, Operation: 2, Alias: world.AliasOf(md.Alias)})
				if fp != 0 {
					w.CompleteAll(fp)
				}
			}
		}
	case "debt-small-release":
		// the provider without funds also holds a tiny shard; a long renewal of the big model records a debt larger
		// than the tiny shard's collateral; the tiny model then ends while the debt is open
		tiny := w.NewDataId()
		_, to := w.Store(world.StoreReq{Owner: o.Id, Gateway: g, DataId: tiny, CommitId: tiny, Duration: 3600, Replica: replica, Timeout: 500, Size: 1000})
		w.CompleteAll(to)
		w.EndBlock()
		renew(60 * 60 * 24 * 30)
		w.EndBlock()
		w.Advance(int64(20 + r.Intn(200)))
		if r.Intn(2) == 0 {
			w.Terminate(o.Id, nil, g.Acct, "", tiny, nil)
		}
	case "exam-during-migration":
		// a provider starts to hand its shard over and the owner renews BEFORE the fully stored order's first
		// timeout examination (created + 500) comes up; the new provider completes afterwards
		w.Advance(int64(1 + r.Intn(100)))
		for _, sh := range sortedShards(w.Cur) {
			if sh.Status == ShardCompleted {
				if pr := w.ProviderByAddr(sh.Sp); pr != nil {
					w.Migrate(pr.Acct, did)
					break
				}
			}
		}
		w.EndBlock()
		// (always renewed: the renewal order copies the shard list, which is what makes a pruned hand-over dangle)
		renew(3600 + uint64(r.Intn(3000)))
		w.EndBlock()
		if od, ok := w.Cur.Orders[oid]; ok {
			w.AdvanceTo(int64(od.CreatedAt) + 503)
		}
		if md, ok := w.Cur.Metas[did]; ok {
			for i := len(md.Orders) - 1; i >= 0; i-- {
				if w.CompleteAll(md.Orders[i]) > 0 {
					break
				}
			}
		}
	case "term-migrating-renewed", "fp-migrating-renewed":
		// renewal, then a migration that is still in flight when the owner terminates / force-replaces the model
		renew(3600 + uint64(r.Intn(3000)))
		w.EndBlock()
		for _, sh := range sortedShards(w.Cur) {
			if sh.Status == ShardCompleted {
				if pr := w.ProviderByAddr(sh.Sp); pr != nil {
					w.Migrate(pr.Acct, did)
					break
				}
			}
		}
		w.EndBlock()
		w.Advance(int64(1 + r.Intn(50)))
		if mode == "term-migrating-renewed" {
			w.Terminate(o.Id, nil, g.Acct, "", did, nil)
		} else if md, ok := w.Cur.Metas[did]; ok {
			_, fp := w.Store(world.StoreReq{Owner: o.Id, Gateway: g, DataId: did, CommitId: md.Commit + "|" + (did[:28] + "-fpmrxxxxxxxxxxxx")[:36], Duration: 3600, Replica: 1, Timeout: 300, Size: size, Operation: 2, Alias: world.AliasOf(md.Alias)})
			if fp != 0 {
				w.CompleteAll(fp)
			}
		}
	case "terminate":
		w.Terminate(o.Id, nil, g.Acct, "", did, nil)
	case "shorter":
		renew(3600 + uint64(r.Intn(200)))
	case "longer":
		renew(d1 + 1000 + uint64(r.Intn(3000)))
	case "queued":
		renew(3600 + uint64(r.Intn(1500)))
		w.Advance(int64(1 + r.Intn(300)))
		renew(3600 + uint64(r.Intn(1500)))
	case "afterroll":
		renew(3600 + uint64(r.Intn(1500)))
		w.AdvanceTo(int64(l.nextScheduledShard()) + int64(5+r.Intn(200)))
		renew(3600 + uint64(r.Intn(1500)))
	case "debt-release":
		renew(60 * 60 * 24 * 300) // collateral far beyond the poor provider's balance
		w.EndBlock()
		w.Advance(int64(50 + r.Intn(500)))
		for _, sp := range l.SP {
			w.Claim(sp.Acct)
		}
		w.Terminate(o.Id, nil, g.Acct, "", did, nil)
	case "debt-expire":
		renew(9000 + uint64(r.Intn(2000)))
		if r.Intn(2) == 0 {
			// renewed shards also move to another provider while the debt is open
			w.Migrate(l.SP[0].Acct, did)
			w.EndBlock()
			if md, ok := w.Cur.Metas[did]; ok {
				for _, id := range md.Orders {
					w.CompleteAll(id)
				}
			}
		}
	case "double-migrate":
		// the same shard is handed over twice within one paid period (no renewal)
		for k := 0; k < 2; k++ {
			for _, sh := range sortedShards(w.Cur) {
				if sh.Status == ShardCompleted {
					if pr := w.ProviderByAddr(sh.Sp); pr != nil {
						w.Migrate(pr.Acct, did)
						break
					}
				}
			}
			w.EndBlock()
			w.CompleteAll(oid)
			w.EndBlock()
			w.Advance(int64(100 + r.Intn(900)))
		}
	case "migrated":
		renew(3600 + uint64(r.Intn(3000)))
		w.EndBlock()
		for _, sh := range sortedShards(w.Cur) {
			if sh.Status == ShardCompleted {
				if pr := w.ProviderByAddr(sh.Sp); pr != nil {
					w.Migrate(pr.Acct, did)
					break
				}
			}
		}
		w.EndBlock()
		if md, ok := w.Cur.Metas[did]; ok {
			for i := len(md.Orders) - 1; i >= 0; i-- {
				if w.CompleteAll(md.Orders[i]) > 0 {
					break
				}
			}
		}
	case "unaligned":
		for k := 0; k < 6; k++ {
			sp := l.SP[r.Intn(len(l.SP))]
			w.RemoveVstorage(sp.Acct, []uint64{1_000_001, 1_999_999, 2_500_001, 5_999_999, 7_000_000, 1_000_000_001, 3_999_999_999}[r.Intn(7)])
			w.Advance(int64(20 + r.Intn(200)))
			if r.Intn(2) == 0 {
				w.AddVstorage(sp.Acct, []uint64{1, 1_500_000, 999_999}[r.Intn(3)])
			}
			w.Claim(l.SP[r.Intn(len(l.SP))].Acct)
		}
	}
	w.EndBlock()
	w.Case("recipe:%s:replica=%d,rewards=%v,twin=%v,first=%v", mode, replica, withRewards, withTwin, twinFirst)
	// cross every scheduled height, claiming now and then
	for round := 0; round < 12 && !w.Halted(); round++ {
		next := l.nextScheduled()
		if next == 0 || int64(next) > w.C.Height+40000 {
			break
		}
		w.AdvanceTo(int64(next) + 1)
		if r.Intn(2) == 0 {
			w.Claim(l.SP[r.Intn(len(l.SP))].Acct)
		}
	}
	for _, sp := range l.SP {
		w.Claim(sp.Acct)
	}
	w.EndBlock()
	w.Sample("renewal recipe %s: %s", mode, traceSummary(w))
	w.Finish()
}

func (l *Life) nextScheduledShard() uint64 {
	h := uint64(l.W.C.Height)
	var best uint64
	for x := range l.W.Cur.ExpShards {
		if x > h && (best == 0 || x < best) {
			best = x
		}
	}
	if best == 0 {
		return h + 1
	}
	return best
}

// scnVersions: update histories for C16 — cancelled / timed-out updates followed by new ones, updates through two
// gateways in the same block, an update while another is in flight, force-pushes.
func scnVersions(ctx *check.JobCtx) {
	w := newLifeWorld(ctx, monitorsFor(ctx.Job.Prop)...)
	a := setupAuthz(w)
	if w.Halted() {
		w.Finish()
		return
	}
	r := w.Rng
	rounds := int(ctx.ArgInt("rounds", 3))
	for k := 0; k < rounds && !w.Halted(); k++ {
		o := []*world.Owner{a.owner, a.sowner}[k%2]
		did := a.newModel(o, 1)
		if did == "" {
			continue
		}
		update := func(gwp *world.Provider, signer *world.Owner, op uint32) (*world.TxEvent, uint64) {
			md := w.Cur.Metas[did]
			return w.Store(world.StoreReq{Owner: signer.Id, Gateway: gwp, DataId: did, CommitId: md.Commit + "|" + a.nextCommit(did), Duration: 3600,
				Replica: 1, Timeout: int32(30 + r.Intn(40)), Size: 1000, Operation: op, Alias: world.AliasOf(md.Alias)})
		}
		for step := 0; step < 8 && !w.Halted(); step++ {
			if _, ok := w.Cur.Metas[did]; !ok {
				break
			}
			signer := o
			if r.Intn(3) == 0 {
				signer = a.rw
			}
			op := uint32(1)
			if r.Intn(4) == 0 {
				op = 2
			}
			pick := r.Intn(7)
			if step == 1 {
				pick = 6
			}
			switch pick {
			case 6: // a two-replica update: one provider stores (the version is committed), the other stays silent, is
				// replaced at the timeout examination, and the replacement completes later — while an unrelated
				// order of the same price is still in flight (its payment sits in the order escrow)
				other := w.NewDataId()
				w.Store(world.StoreReq{Owner: a.stranger.Id, Gateway: a.gw, DataId: other, CommitId: other, Duration: 3600, Replica: 2, Timeout: 3000, Size: 1000})
				md := w.Cur.Metas[did]
				to := int32(30 + r.Intn(40))
				_, oid := w.Store(world.StoreReq{Owner: signer.Id, Gateway: a.gw, DataId: did, CommitId: md.Commit + "|" + a.nextCommit(did), Duration: 3600,
					Replica: 2, Timeout: to, Size: 1000, Operation: 1, Alias: world.AliasOf(md.Alias)})
				if od, ok := w.Cur.Orders[oid]; ok && len(od.Shards) == 2 {
					sh := w.Cur.Shards[od.Shards[r.Intn(2)]]
					if pr := w.ProviderByAddr(sh.Sp); pr != nil {
						w.Complete(pr.Acct, nil, oid, sh.Size_)
					}
					w.EndBlock()
					// a further update is committed on top before the silent replica is examined
					between := uint64(0)
					if r.Intn(3) > 0 {
						if _, u := update(a.gw, o, 1); u != 0 {
							w.CompleteAll(u)
							between = u
						}
						w.EndBlock()
					}
					w.Advance(int64(to) + 2)
					n := w.CompleteAll(oid)
					w.Case("c16:recipe:late-replacement-completes:completed=%d,update-between=%v", n, between != 0)
				}
			case 0: // update, cancelled by the gateway, then the next update names whatever the chain shows as current
				if _, oid := update(a.gw, signer, op); oid != 0 {
					w.EndBlock()
					w.Cancel(a.gw.Acct, oid, a.gw.Acct.Addr.String())
					w.Case("c16:recipe:update-cancelled")
				}
			case 1: // update that times out (providers silent)
				if _, oid := update(a.gw, signer, op); oid != 0 {
					w.EndBlock()
					w.Advance(4000)
					w.Case("c16:recipe:update-timed-out")
				}
			case 2: // two updates through two gateways in the same block
				_, o1 := update(a.gw, o, 1)
				_, o2 := update(a.gw2, a.rw, 1)
				w.Case("c16:recipe:two-gateways-same-block:first=%v,second=%v", o1 != 0, o2 != 0)
				w.EndBlock()
				if o1 != 0 {
					w.CompleteAll(o1)
				}
				if o2 != 0 {
					w.CompleteAll(o2)
				}
			case 3: // an update while another one is in flight, then both complete in reverse order
				_, o1 := update(a.gw, signer, op)
				w.EndBlock()
				_, o2 := update(a.gw2, o, 1)
				if o2 != 0 {
					w.CompleteAll(o2)
				}
				if o1 != 0 {
					w.CompleteAll(o1)
				}
				w.Case("c16:recipe:update-during-inflight:second-accepted=%v", o2 != 0)
			default: // a plain committed update / force-push
				if _, oid := update(a.gw, signer, op); oid != 0 {
					w.CompleteAll(oid)
					w.Case("c16:recipe:committed:op=%d", op)
				}
			}
			w.EndBlock()
		}
	}
	w.Sample("version recipes: %s", traceSummary(w))
	w.Finish()
}

// staleOrderOnRecreatedModel: an owner's update is still in flight when the model is terminated; a stranger
// creates a model under the same data id; the provider then completes the stale order.
func staleOrderOnRecreatedModel(a *authzWorld) {
	w := a.w
	did := a.newModel(a.owner, 1)
	if did == "" {
		return
	}
	md := w.Cur.Metas[did]
	_, stale := w.Store(world.StoreReq{Owner: a.owner.Id, Gateway: a.gw, DataId: did, CommitId: md.Commit + "|" + a.nextCommit(did), Duration: 3600, Replica: 1, Timeout: 2000, Size: 1000, Alias: world.AliasOf(md.Alias)})
	w.EndBlock()
	w.Terminate(a.owner.Id, nil, a.gw.Acct, "", did, nil)
	w.EndBlock()
	if stale == 0 {
		return
	}
	// the stranger's own model under the same data id
	_, oid := w.Store(world.StoreReq{Owner: a.stranger.Id, Gateway: a.gw, DataId: did, CommitId: did, Duration: 3600, Replica: 1, Timeout: 2000, Size: 1000, Alias: "stranger-" + did})
	if oid == 0 {
		return
	}
	a.models[did] = a.stranger
	w.CompleteAll(oid)
	w.EndBlock()
	// now the stale order of the former owner is reported stored
	if o, ok := w.Cur.Orders[stale]; ok {
		for _, sid := range o.Shards {
			if sh, ok := w.Cur.Shards[sid]; ok && sh.Status == ShardWaiting {
				if p := w.ProviderByAddr(sh.Sp); p != nil {
					meta := map[string]interface{}{"c09.target": did, "c09.authorized": false, "c09.case": "complete-stale-order-of-former-owner", "c09.others": a.others(did)}
					w.Deliver("complete", p.Acct, meta, saotypes.NewMsgComplete(p.Acct.Addr.String(), stale, world.Cid1, sh.Size_, sh.Sp))
				}
			}
		}
	}
	w.EndBlock()
}

var _ = fmt.Sprint
var _ = actors.DefaultGas

// revokedBeforeCompletion: a read-write grantee's update is in flight when the owner revokes the grant; the
// provider then reports the grantee's order as stored.
func revokedBeforeCompletion(a *authzWorld) {
	w := a.w
	for _, o := range []*world.Owner{a.owner, a.sowner} {
		did := a.newModel(o, 1)
		if did == "" {
			continue
		}
		md := w.Cur.Metas[did]
		_, oid := w.Store(world.StoreReq{Owner: a.rw.Id, Gateway: a.gw, DataId: did, CommitId: md.Commit + "|" + a.nextCommit(did), Duration: 3600, Replica: 1, Timeout: 2000, Size: 1000, Alias: world.AliasOf(md.Alias)})
		w.EndBlock()
		if oid == 0 {
			continue
		}
		// the owner withdraws the grant while the grantee's order is still waiting for its provider
		w.UpdatePermission(o.Id, nil, a.gw.Acct, "", did, []string{a.ro.Id.DID()}, []string{}, nil)
		w.EndBlock()
		if od, ok := w.Cur.Orders[oid]; ok {
			for _, sid := range od.Shards {
				if sh, ok := w.Cur.Shards[sid]; ok && sh.Status == ShardWaiting {
					if p := w.ProviderByAddr(sh.Sp); p != nil {
						meta := map[string]interface{}{"c09.target": did, "c09.authorized": false, "c09.case": "complete-order-of-revoked-grantee", "c09.others": a.others(did)}
						w.Deliver("complete", p.Acct, meta, saotypes.NewMsgComplete(p.Acct.Addr.String(), oid, world.Cid1, sh.Size_, sh.Sp))
					}
				}
			}
		}
		w.EndBlock()
		// leave the model usable for later probes
		if od, ok := w.Cur.Orders[oid]; ok && od.Status != OrderCompleted {
			w.Cancel(a.gw.Acct, oid, a.gw.Acct.Addr.String())
		}
		w.UpdatePermission(o.Id, nil, a.gw.Acct, "", did, []string{a.ro.Id.DID()}, []string{a.rw.Id.DID()}, nil)
		w.EndBlock()
	}
}

// renewAfterGranteeUpdate: once a read-write grantee's update is the model's latest committed order, renewals and
// permission changes are still owner-only.
func renewAfterGranteeUpdate(a *authzWorld) {
	w := a.w
	for _, o := range []*world.Owner{a.owner, a.sowner} {
		did := a.newModel(o, 1)
		if did == "" {
			continue
		}
		md := w.Cur.Metas[did]
		_, oid := w.Store(world.StoreReq{Owner: a.rw.Id, Gateway: a.gw, DataId: did, CommitId: md.Commit + "|" + a.nextCommit(did), Duration: 3600, Replica: 1, Timeout: 400, Size: 1000, Alias: world.AliasOf(md.Alias)})
		if oid == 0 {
			continue
		}
		w.CompleteAll(oid)
		w.EndBlock()
		for _, role := range a.roles(o) {
			for _, kind := range []string{"renew", "permission"} {
				if _, ok := w.Cur.Metas[did]; ok {
					a.probe(did, o, kind, role, "none", a.gw.Acct, "gateway-after-grantee-update")
				}
			}
		}
		w.EndBlock()
	}
}
