package props

import (
	"fmt"
	"sort"
	"strconv"

	"saoverif/mon"
	"saoverif/world"

	saotypes "github.com/SaoNetwork/sao/x/sao/types"
	sdk "github.com/cosmos/cosmos-sdk/types"
)

// owedStorage is what the chain's own records say the order and market
// escrows owe at height h:
//   - payments of orders that have not started (not yet deposited),
//   - income accrued by providers and not yet claimed,
//   - income still to be earned on live shards in their current paid period,
//   - prepaid renewal periods queued on shards,
//   - the price of replicas of started orders that are still waiting for a provider.
func owedStorage(s *mon.State, h int64) (order sdk.Dec, market sdk.Dec) {
	order, market = sdk.ZeroDec(), sdk.ZeroDec()
	for _, o := range s.Orders {
		if o.Operation == 3 {
			continue
		}
		if o.Status != OrderCompleted {
			order = order.Add(sdk.NewDecFromInt(o.Amount.Amount))
			continue
		}
		for _, sid := range o.Shards {
			if sh, ok := s.Shards[sid]; ok && sh.Status == ShardWaiting {
				market = market.Add(o.UnitPrice.Amount.MulInt64(int64(sh.Size_)).MulInt64(int64(o.Duration)))
			}
		}
	}
	for _, wk := range s.Workers {
		market = market.Add(wk.Reward.Amount).Add(wk.IncomePerSecond.Amount.MulInt64(h - wk.LastRewardAt))
	}
	for _, sh := range s.Shards {
		if sh.Status == ShardCompleted {
			if o, ok := s.Orders[sh.OrderId]; ok {
				left := int64(sh.CreatedAt+sh.Duration) - h
				if left > 0 {
					market = market.Add(o.UnitPrice.Amount.MulInt64(int64(sh.Size_)).MulInt64(left))
				}
			}
		}
		for _, ri := range sh.RenewInfos {
			price := unitPrice()
			if o, ok := s.Orders[ri.OrderId]; ok {
				price = o.UnitPrice.Amount
			}
			market = market.Add(price.MulInt64(int64(sh.Size_)).MulInt64(int64(ri.Duration)))
		}
	}
	return
}

// ---------------------------------------------------------------- C04

// C04: order payment conservation.
type C04 struct {
	clients  map[string]bool // accounts on the client side (payers, owner payment addresses)
	charges  int64           // number of charges (each may leave < 1 coin of rounding dust)
	truncs   int64           // number of refund settlements (each may leave < 1 coin)
	hold     map[uint64]*holding
	earned   map[string]sdk.Dec // closed holdings per provider
	consumed map[string]sdk.Dec // whole coins taken out of the market account by claims, per provider
	checks   int64
	endings  map[string]int64
	payerOf  map[uint64]string // order id -> account that was charged for it
}

type holding struct {
	sp    string
	rate  sdk.Dec
	start int64
	order uint64
	cat   uint64
}

func NewC04() *C04 {
	return &C04{clients: map[string]bool{}, hold: map[uint64]*holding{}, earned: map[string]sdk.Dec{}, consumed: map[string]sdk.Dec{}, endings: map[string]int64{}, payerOf: map[uint64]string{}}
}

func (m *C04) ID() string { return "C04" }
func (m *C04) Done(w *world.World) {
	w.Count("c04.checks", m.checks)
	w.Count("c04.charges", m.charges)
	w.Count("c04.refund_settlements", m.truncs)
	for k, v := range m.endings {
		w.Count("c04.ending."+k, v)
	}
}

func decOf(m map[string]sdk.Dec, k string) sdk.Dec {
	if v, ok := m[k]; ok {
		return v
	}
	return sdk.ZeroDec()
}

// syncHoldings opens/closes the reference holdings from the observed shard table at height h.
func (m *C04) syncHoldings(s *mon.State, h int64) {
	for sid, hd := range m.hold {
		sh, ok := s.Shards[sid]
		if !ok || sh.Status != ShardCompleted || sh.Sp != hd.sp || sh.OrderId != hd.order || sh.CreatedAt != hd.cat {
			m.earned[hd.sp] = decOf(m.earned, hd.sp).Add(hd.rate.MulInt64(h - hd.start))
			delete(m.hold, sid)
		}
	}
	for sid, sh := range s.Shards {
		if sh.Status != ShardCompleted {
			continue
		}
		if _, ok := m.hold[sid]; ok {
			continue
		}
		price := unitPrice()
		if o, ok := s.Orders[sh.OrderId]; ok {
			price = o.UnitPrice.Amount
		}
		m.hold[sid] = &holding{sp: sh.Sp, rate: price.MulInt64(int64(sh.Size_)), start: h, order: sh.OrderId, cat: sh.CreatedAt}
	}
}

func (m *C04) classify(w *world.World, where string, kind string, signer string, trs []mon.Transfer, pre *mon.State) {
	for _, t := range trs {
		fromMod, toMod := mon.ModuleAddrs[t.From], mon.ModuleAddrs[t.To]
		if fromMod != "order" && fromMod != "market" && toMod != "order" && toMod != "market" {
			continue
		}
		m.checks++
		ok := false
		switch {
		case toMod == "order" && fromMod == "":
			ok = kind == "store" && t.From != ""
		case toMod == "market" && fromMod == "":
			ok = kind == "renew" && t.From != ""
		case fromMod == "order" && toMod == "market":
			ok = kind == "complete"
		case fromMod == "market" && toMod == "order":
			ok = kind == "terminate" || kind == "complete"
		case fromMod == "market" && toMod == "node":
			// storage income of the claiming provider applied to its own recorded collateral debt
			if kind == "claim" {
				dpre, dpost := pre.Debts[signer], sdk.ZeroInt()
				if dpre.IsNil() {
					dpre = sdk.ZeroInt()
				}
				ok = dpre.GTE(t.Amount)
				_ = dpost
			}
		case fromMod == "order" && toMod == "did":
			ok = kind == "terminate" || kind == "complete"
		case fromMod == "order" && toMod == "":
			ok = m.clients[t.To] && (kind == "terminate" || kind == "cancel" || kind == "complete" || kind == "endblock")
			if ok {
				m.truncs++
			}
		case fromMod == "market" && toMod == "":
			if kind == "claim" {
				_, hasW := pre.Workers[t.To]
				ok = t.To == signer && hasW
			} else if kind == "endblock" {
				ok = m.clients[t.To]
				if ok {
					m.truncs++
				}
			}
		}
		if !ok {
			w.Violate("C04", fmt.Sprintf("escrow-transfer-not-income-or-refund:%s:%s->%s", kind, nameOf(t.From), nameOf(t.To)), fmt.Sprintf("%s: %s moved %s -> %s, which is neither a charge, a deposit, provider income to the claiming provider nor a refund to the client side", where, t.Amount, nameOf(t.From), nameOf(t.To)), nil)
		}
	}
}

func nameOf(a string) string {
	if n, ok := mon.ModuleAddrs[a]; ok {
		return n
	}
	if a == "" {
		return "mint/burn"
	}
	return "account"
}

func (m *C04) Tx(w *world.World, e *world.TxEvent) {
	if e.Pre == nil || e.Post == nil {
		return
	}
	h := e.Height
	signer := ""
	if e.Signer != nil {
		signer = e.Signer.Addr.String()
	}
	// (i) charge exactness
	if e.OK {
		switch msg := e.Msg.(type) {
		case *saotypes.MsgStore:
			p := msg.Proposal
			want := quote(p.Size_, p.Replica, p.Duration)
			payDid := p.Owner
			if p.PaymentDid != "" {
				payDid = p.PaymentDid
			}
			payer := e.Pre.PayAddr[payDid]
			var got []mon.Transfer
			for _, t := range e.Transfers {
				if t.To == mon.AddrOrder || (t.From != "" && mon.ModuleAddrs[t.From] == "" && mon.ModuleAddrs[t.To] != "") {
					got = append(got, t)
				}
			}
			m.checks++
			if len(got) != 1 || !got[0].Amount.Equal(want) || got[0].From != payer || got[0].To != mon.AddrOrder {
				w.Violate("C04", "store-charge", fmt.Sprintf("store of size %d x %d replicas x %d blocks quotes %s from %s (payment address of %s) but the transaction moved %v", p.Size_, p.Replica, p.Duration, want, shortAddr(payer), payDid, fmtTrs(got)), nil)
			}
			m.charges++
			m.clients[payer] = true
			if a, ok := e.Pre.PayAddr[p.Owner]; ok {
				m.clients[a] = true
			}
			if id, ok := world.NewOrderID(e); ok && len(got) == 1 {
				m.payerOf[id] = got[0].From
			}
			w.Case("c04:charge:store:size=%d,replica=%d,sponsored=%v", p.Size_, p.Replica, p.PaymentDid != "")
		case *saotypes.MsgRenew:
			want := sdk.ZeroInt()
			n := 0
			for id, o := range e.Post.Orders {
				if _, old := e.Pre.Orders[id]; old || o.Operation != 3 {
					continue
				}
				want = want.Add(quote(o.Size_, o.Replica, msg.Proposal.Duration))
				n++
				m.payerOf[id] = e.Pre.PayAddr[msg.Proposal.Owner]
			}
			payer := e.Pre.PayAddr[msg.Proposal.Owner]
			got := sdk.ZeroInt()
			cnt := 0
			for _, t := range e.Transfers {
				if t.To == mon.AddrMarket {
					cnt++
					got = got.Add(t.Amount)
					if t.From != payer {
						w.Violate("C04", "renew-charged-wrong-account", fmt.Sprintf("renewal charged %s instead of the owner's payment address %s", shortAddr(t.From), shortAddr(payer)), nil)
					}
				}
			}
			m.checks++
			if cnt != n || !got.Equal(want) {
				w.Violate("C04", "renew-charge", fmt.Sprintf("renewal of %d models for %d blocks quotes %s in %d charges but %d charges of total %s were made", n, msg.Proposal.Duration, want, n, cnt, got), nil)
			}
			m.charges += int64(n)
			m.clients[payer] = true
			if n > 0 {
				w.Case("c04:charge:renew:n=%d", n)
			}
		}
	}
	m.classify(w, fmt.Sprintf("tx %s at height %d", e.Kind, h), e.Kind, signer, e.Transfers, e.Pre)
	if e.OK && e.Kind != "claim" {
		m.refundRecipients(w, fmt.Sprintf("tx %s at height %d", e.Kind, h), e.Transfers, e.Marks, e.Pre, e.Post)
	}
	// claims consume accrued income
	if e.OK && e.Kind == "claim" {
		if pw, ok := e.Pre.Workers[signer]; ok {
			before := pw.Reward.Amount.Add(pw.IncomePerSecond.Amount.MulInt64(h - pw.LastRewardAt))
			after := before
			if qw, ok := e.Post.Workers[signer]; ok {
				after = qw.Reward.Amount.Add(qw.IncomePerSecond.Amount.MulInt64(h - qw.LastRewardAt))
			}
			taken := before.Sub(after)
			m.consumed[signer] = decOf(m.consumed, signer).Add(taken)
			paid := sdk.ZeroInt()
			for _, t := range e.Transfers {
				if t.From == mon.AddrMarket && t.To == signer {
					paid = paid.Add(t.Amount)
				}
			}
			m.checks++
			if sdk.NewDecFromInt(paid).GT(taken) || taken.IsNegative() {
				w.Violate("C04", "claim-paid-more-than-accrued", fmt.Sprintf("claim by %s reduced its accrued income by %s but was paid %s from the market escrow", shortAddr(signer), taken, paid), nil)
			}
			if taken.IsPositive() {
				w.Case("c04:claim:paid-in-full=%v", sdk.NewDecFromInt(paid).Equal(taken))
			}
		}
	}
	// endings
	if e.OK {
		switch e.Kind {
		case "terminate", "cancel":
			m.endings[e.Kind]++
			w.Case("c04:ending:%s:orders=%d", e.Kind, minInt(len(e.Pre.Orders)-len(e.Post.Orders), 4))
		case "complete":
			if len(e.Pre.Orders) > len(e.Post.Orders) {
				m.endings["forcepush"]++
				w.Case("c04:ending:forcepush")
			}
		}
	}
	m.syncHoldings(e.Post, h)
	m.incomeLaw(w, e.Post, h, "after tx "+e.Kind)
	m.conservation(w, e.Post, h, "after tx "+e.Kind)
}

func fmtTrs(trs []mon.Transfer) string {
	s := "["
	for i, t := range trs {
		if i > 0 {
			s += ", "
		}
		s += fmt.Sprintf("%s %s->%s", t.Amount, nameOrAddr(t.From), nameOrAddr(t.To))
	}
	return s + "]"
}

func nameOrAddr(a string) string {
	if n, ok := mon.ModuleAddrs[a]; ok {
		return n
	}
	return shortAddr(a)
}

func (m *C04) Block(w *world.World, e *world.BlockEvent) {
	h := e.Height
	m.classify(w, fmt.Sprintf("begin block %d", h), "beginblock", "", e.BeginTransfers, e.Prev)
	m.classify(w, fmt.Sprintf("end block %d", h), "endblock", "", e.EndTransfers, e.PreEnd)
	m.refundRecipients(w, fmt.Sprintf("end block %d", h), e.EndTransfers, e.EndMarks, e.PreEnd, e.Post)
	for _, mk := range e.EndMarks {
		if mk.Type == "cancel-order" {
			m.endings["timeout-cancel"]++
			w.Case("c04:ending:timeout-cancel")
		}
	}
	for id, o := range e.PreEnd.Orders {
		if p, ok := e.Post.Orders[id]; ok && p.Replica < o.Replica {
			m.endings["replica-reduction"]++
			w.Case("c04:ending:replica-reduction:%d->%d", o.Replica, p.Replica)
		}
	}
	nrel := 0
	for sid, sh := range e.PreEnd.Shards {
		if sh.Status == ShardCompleted {
			if p, ok := e.Post.Shards[sid]; !ok {
				nrel++
			} else if p.OrderId != sh.OrderId {
				m.endings["rotation"]++
				w.Case("c04:ending:rotation-to-renewal")
			}
		}
	}
	if nrel > 0 {
		m.endings["expiry"] += int64(nrel)
		w.Case("c04:ending:expiry:n=%d", minInt(nrel, 4))
	}
	m.syncHoldings(e.Post, h)
	m.incomeLaw(w, e.Post, h, "block boundary")
	m.conservation(w, e.Post, h, "block boundary")
}

// incomeLaw: for every provider, income consumed by claims + income accrued in
// its market account equals unit price x bytes x blocks over the shards it held.
func (m *C04) incomeLaw(w *world.World, s *mon.State, h int64, where string) {
	provs := map[string]bool{}
	for p := range s.Workers {
		provs[p] = true
	}
	for p := range m.earned {
		provs[p] = true
	}
	for _, hd := range m.hold {
		provs[hd.sp] = true
	}
	names := make([]string, 0, len(provs))
	for p := range provs {
		names = append(names, p)
	}
	sort.Strings(names)
	for _, p := range names {
		ref := decOf(m.earned, p)
		for _, hd := range m.hold {
			if hd.sp == p {
				ref = ref.Add(hd.rate.MulInt64(h - hd.start))
			}
		}
		obs := decOf(m.consumed, p)
		if wk, ok := s.Workers[p]; ok {
			obs = obs.Add(wk.Reward.Amount).Add(wk.IncomePerSecond.Amount.MulInt64(h - wk.LastRewardAt))
		}
		m.checks++
		if !obs.Equal(ref) {
			w.Violate("C04", "provider-income-differs-from-bytes-x-blocks", fmt.Sprintf("%s at height %d: provider %s has claimed+accrued income %s but unit price x bytes x blocks over the shards it held is %s", where, h, shortAddr(p), obs, ref), nil)
		}
	}
}

// conservation: the order and market escrows hold exactly what is still owed plus rounding dust.
func (m *C04) conservation(w *world.World, s *mon.State, h int64, where string) {
	oOwed, mOwed := owedStorage(s, h)
	have := sdk.NewDecFromInt(s.BalOf(mon.AddrOrder).Add(s.BalOf(mon.AddrMarket)))
	diff := have.Sub(oOwed).Sub(mOwed)
	bound := sdk.NewDec(m.charges + m.truncs + 1)
	m.checks++
	if diff.IsNegative() {
		w.Violate("C04", "escrow-below-outstanding-payments", fmt.Sprintf("%s at height %d: order+market escrows hold %s but outstanding order payments are %s and provider income (accrued, future, prepaid renewals, unfilled replicas) %s", where, h, have, oOwed, mOwed), nil)
	} else if diff.GT(bound) {
		w.Violate("C04", "money-stranded-in-escrow", fmt.Sprintf("%s at height %d: order+market escrows hold %s, which exceeds everything still owed (orders %s + provider income %s) by %s although only %d charges and %d refund settlements could each leave less than one coin of rounding dust", where, h, have, oOwed, mOwed, diff, m.charges, m.truncs), nil)
	}
}

// ---------------------------------------------------------------- C06

// C06: escrow solvency at block boundaries.
type C06 struct {
	checks int64
	minted int64
}

func (m *C06) ID() string { return "C06" }
func (m *C06) Tx(w *world.World, e *world.TxEvent) {
	if e.Pre == nil || e.Post == nil {
		return
	}
	// an entitled payout that fails for lack of escrowed funds
	if !e.OK && (e.Kind == "claim" || e.Kind == "terminate" || e.Kind == "cancel" || e.Kind == "remove-vstorage") {
		if containsAny(e.Res.Log, "insufficient funds", "does not exist", "negative coin amount") {
			w.Violate("C06", "payout-failed:"+e.Kind+":"+classifyLog(e.Res.Log), fmt.Sprintf("%s by %s failed at height %d: %s", e.Kind, shortAddr(e.Signer.Addr.String()), e.Height, firstN(e.Res.Log, 300)), nil)
		}
	}
}
func (m *C06) Done(w *world.World) { w.Count("c06.inequalities_evaluated", m.checks) }

func containsAny(s string, subs ...string) bool {
	for _, x := range subs {
		if len(x) > 0 && len(s) >= len(x) && (stringIndex(s, x) >= 0) {
			return true
		}
	}
	return false
}

func stringIndex(s, sub string) int {
	for i := 0; i+len(sub) <= len(s); i++ {
		if s[i:i+len(sub)] == sub {
			return i
		}
	}
	return -1
}

func classifyLog(l string) string {
	switch {
	case stringIndex(l, "insufficient funds") >= 0:
		return "insufficient-funds"
	case stringIndex(l, "does not exist") >= 0:
		return "module-account-missing"
	case stringIndex(l, "negative coin amount") >= 0:
		return "negative-coin"
	}
	return "other"
}

func firstN(s string, n int) string {
	if len(s) > n {
		return s[:n]
	}
	return s
}

func (m *C06) Block(w *world.World, e *world.BlockEvent) {
	s := e.Post
	h := e.Height
	oOwed, mOwed := owedStorage(s, h)
	m.checks += 4
	if sdk.NewDecFromInt(s.BalOf(mon.AddrOrder)).LT(oOwed) {
		w.Violate("C06", "order-escrow-short", fmt.Sprintf("height %d: order escrow holds %s but unsettled order payments total %s", h, s.BalOf(mon.AddrOrder), oOwed), nil)
	}
	if sdk.NewDecFromInt(s.BalOf(mon.AddrMarket)).LT(mOwed) {
		w.Violate("C06", "market-escrow-short", fmt.Sprintf("height %d: market escrow holds %s but provider income owed (accrued + future on live shards + prepaid renewals + unfilled replicas) is %s", h, s.BalOf(mon.AddrMarket), mOwed), nil)
	}
	// node escrow: collateral net of debt + unclaimed block rewards
	need := sdk.ZeroDec()
	for p, pl := range s.Pledges {
		need = need.Add(sdk.NewDecFromInt(pl.TotalStoragePledged.Amount)).Add(sdk.NewDecFromInt(pl.TotalShardPledged.Amount))
		if d, ok := s.Debts[p]; ok {
			need = need.Sub(sdk.NewDecFromInt(d))
		}
		need = need.Add(pl.Reward.Amount)
		if s.PoolFound && pl.TotalStorage > 0 {
			pending := s.Pool.AccRewardPerByte.Amount.MulInt64(pl.TotalStorage).Sub(pl.RewardDebt.Amount)
			if pending.IsPositive() {
				need = need.Add(pending)
			}
		}
	}
	eps := sdk.OneDec() // accumulated 18-decimal rounding of the per-byte reward accumulator stays far below one coin
	if sdk.NewDecFromInt(s.BalOf(mon.AddrNode)).Add(eps).LT(need) {
		w.Violate("C06", "node-escrow-short", fmt.Sprintf("height %d: node escrow holds %s but collateral net of debt plus unclaimed rewards is %s", h, s.BalOf(mon.AddrNode), need), nil)
	}
	didNeed := sdk.ZeroInt()
	for _, b := range s.DidBal {
		didNeed = didNeed.Add(b)
	}
	if s.BalOf(mon.AddrDid).LT(didNeed) {
		w.Violate("C06", "did-escrow-short", fmt.Sprintf("height %d: did escrow holds %s but balances held for DIDs total %s", h, s.BalOf(mon.AddrDid), didNeed), nil)
	}
	w.Case("c06:orders=%d,live=%d,renewq=%v,debts=%d,rewards=%v,didbal=%v", bucket(len(s.Orders)), bucket(len(s.Shards)), anyRenewed(s), bucket(len(s.Debts)), s.PoolFound && s.Pool.TotalReward.Amount.IsPositive(), len(s.DidBal) > 0)
}

// refundRecipients attributes every refund (escrow -> account) of an event list to the order it settles — the
// next terminate-order / cancel-order marker in emission order, or, for a replica reduction in an end block, an
// order whose replica count dropped — and checks that it went to that order's payer or its owner's payment address.
func (m *C04) refundRecipients(w *world.World, where string, trs []mon.Transfer, marks []mon.Marker, pre, post *mon.State) {
	for _, t := range trs {
		from := mon.ModuleAddrs[t.From]
		if (from != "order" && from != "market") || t.To == "" || mon.ModuleAddrs[t.To] != "" {
			continue
		}
		var orderID uint64
		found := false
		for _, mk := range marks {
			if mk.Seq > t.Seq && (mk.Type == "terminate-order" || mk.Type == "cancel-order") {
				if v, err := strconv.ParseUint(mk.Attrs["order-id"], 10, 64); err == nil {
					orderID, found = v, true
				}
				break
			}
		}
		var okTo []string
		if found {
			if o, ok := pre.Orders[orderID]; ok {
				okTo = append(okTo, m.payerOf[orderID], pre.PayAddr[o.Owner])
			}
		} else {
			// no marker: any order that ended in this step
			for id, o := range pre.Orders {
				if _, still := post.Orders[id]; !still {
					okTo = append(okTo, m.payerOf[id], pre.PayAddr[o.Owner])
					found = true
				}
			}
			// replica reduction: any order whose replica count dropped in this step
			for id, o := range pre.Orders {
				if p, ok := post.Orders[id]; ok && p.Replica < o.Replica {
					okTo = append(okTo, m.payerOf[id], pre.PayAddr[o.Owner])
					found = true
				}
			}
		}
		m.checks++
		if !found {
			w.Violate("C04", "refund-without-settled-order", fmt.Sprintf("%s: %s left the %s escrow for %s but no order was terminated, cancelled or reduced", where, t.Amount, from, shortAddr(t.To)), nil)
			continue
		}
		good := false
		for _, a := range okTo {
			if a != "" && a == t.To {
				good = true
			}
		}
		if !good {
			w.Violate("C04", "refund-to-wrong-party", fmt.Sprintf("%s: the refund of %s for order %d went to %s, which is neither the account that paid for it nor its owner's payment address", where, t.Amount, orderID, shortAddr(t.To)), nil)
		}
	}
}
