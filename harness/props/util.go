// Package props holds the per-property monitors, the scenarios (workloads)
// that drive them and the check specifications.
package props

import (
	"sort"

	"saoverif/mon"

	ordertypes "github.com/SaoNetwork/sao/x/order/types"
	sdk "github.com/cosmos/cosmos-sdk/types"
)

func sortedOrders(s *mon.State) []ordertypes.Order {
	ids := make([]uint64, 0, len(s.Orders))
	for id := range s.Orders {
		ids = append(ids, id)
	}
	sort.Slice(ids, func(i, j int) bool { return ids[i] < ids[j] })
	out := make([]ordertypes.Order, 0, len(ids))
	for _, id := range ids {
		out = append(out, s.Orders[id])
	}
	return out
}

func sortedShards(s *mon.State) []ordertypes.Shard {
	ids := make([]uint64, 0, len(s.Shards))
	for id := range s.Shards {
		ids = append(ids, id)
	}
	sort.Slice(ids, func(i, j int) bool { return ids[i] < ids[j] })
	out := make([]ordertypes.Shard, 0, len(ids))
	for _, id := range ids {
		out = append(out, s.Shards[id])
	}
	return out
}

func sortedKeys(m map[string]sdk.Int) []string {
	ks := make([]string, 0, len(m))
	for k := range m {
		ks = append(ks, k)
	}
	sort.Strings(ks)
	return ks
}

// unitPrice is the documented storage price: 1e-6 coin per byte per block.
func unitPrice() sdk.Dec { return sdk.NewDecWithPrec(1, 6) }

// quote is the documented price of an order: unit price x size x replicas x duration, rounded up.
func quote(size uint64, replica int32, duration uint64) sdk.Int {
	if size == 0 {
		size = 1
	}
	d := unitPrice().MulInt64(int64(size)).MulInt64(int64(replica)).MulInt64(int64(duration))
	return d.Ceil().TruncateInt()
}

func shortAddr(a string) string {
	if len(a) > 10 {
		return a[len(a)-6:]
	}
	return a
}

// bucketInt renders the order of magnitude of an amount for case signatures.
func bucketInt(v sdk.Int) string {
	switch {
	case !v.IsPositive():
		return "0"
	case v.LT(sdk.NewInt(100)):
		return "<100"
	case v.LT(sdk.NewInt(1000)):
		return "<1e3"
	case v.LT(sdk.NewInt(10000)):
		return "<1e4"
	}
	return ">=1e4"
}
