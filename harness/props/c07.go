package props

import (
	"fmt"

	"saoverif/mon"
	"saoverif/world"

	sdk "github.com/cosmos/cosmos-sdk/types"
)

// C07: provider collateral safety.
//
// Oracle 1 (flow = book): for every transaction and every begin/end block, and
// for every provider p, the coins that moved between p and the node escrow
// equal the change of p's recorded collateral K_p = capacity pledge + shard
// pledges - recorded debt.  Reward claims are the one other legitimate
// outflow of the node escrow; they are accounted separately (whole-coin part
// of the settled reward) so that a claim cannot hide a collateral leak.
// Oracle 2: an outflow of the node escrow goes only to a provider whose own
// recorded collateral/reward decreased by that amount.
// Oracle 3: capacity withdrawal never exceeds free capacity of the pre-state;
// pledge rows never show used<0, used>total or negative coins.
type C07 struct {
	flows, rows int64
	taken       map[uint64]sdk.Int // per shard: collateral taken for it (completion + renewal top-ups), by the chain's own records at that time
	shardOwner  map[uint64]string
}

// journal keeps the per-shard collateral journal and checks, per provider and event, that the shard collateral
// total moved by exactly what was taken for the shards that started and what had been taken for the shards that ended.
func (m *C07) journal(w *world.World, where, kind string, pre, post *mon.State) {
	if m.taken == nil {
		m.taken = map[uint64]sdk.Int{}
		m.shardOwner = map[uint64]string{}
	}
	exp := map[string]sdk.Int{} // provider -> expected change of its shard collateral total
	add := func(p string, v sdk.Int) {
		if cur, ok := exp[p]; ok {
			exp[p] = cur.Add(v)
		} else {
			exp[p] = v
		}
	}
	for sid, sh := range post.Shards {
		if sh.Status != ShardCompleted {
			continue
		}
		old, had := pre.Shards[sid]
		if !had || old.Status != ShardCompleted {
			m.taken[sid] = sh.Pledge.Amount
			m.shardOwner[sid] = sh.Sp
			add(sh.Sp, sh.Pledge.Amount)
			continue
		}
		if kind == "renew" && sh.Pledge.Amount.GT(old.Pledge.Amount) {
			top := sh.Pledge.Amount.Sub(old.Pledge.Amount)
			if t, ok := m.taken[sid]; ok {
				m.taken[sid] = t.Add(top)
			}
			add(sh.Sp, top)
		}
	}
	for sid, old := range pre.Shards {
		if old.Status != ShardCompleted {
			continue
		}
		if cur, ok := post.Shards[sid]; ok && cur.Status == ShardCompleted {
			continue
		}
		if t, ok := m.taken[sid]; ok {
			add(old.Sp, t.Neg())
			delete(m.taken, sid)
			delete(m.shardOwner, sid)
		}
	}
	for p, want := range exp {
		a, b := sdk.ZeroInt(), sdk.ZeroInt()
		if pl, ok := pre.Pledges[p]; ok {
			a = pl.TotalShardPledged.Amount
		}
		if pl, ok := post.Pledges[p]; ok {
			b = pl.TotalShardPledged.Amount
		}
		m.flows++
		if !b.Sub(a).Equal(want) {
			w.Violate("C07", "shard-collateral-returned-differs-from-taken:"+kind, fmt.Sprintf("%s: provider %s: by the collateral taken for the shards that started/ended in this step (completion amounts plus renewal top-ups) its shard collateral should move by %s, but it moved by %s", where, shortAddr(p), want, b.Sub(a)), nil)
		}
	}
}

func (m *C07) ID() string { return "C07" }
func (m *C07) Done(w *world.World) {
	w.Count("c07.flow_checks", m.flows)
	w.Count("c07.row_checks", m.rows)
}

func collateral(s *mon.State, p string) sdk.Int {
	k := sdk.ZeroInt()
	if pl, ok := s.Pledges[p]; ok {
		k = k.Add(pl.TotalStoragePledged.Amount).Add(pl.TotalShardPledged.Amount)
	}
	if d, ok := s.Debts[p]; ok {
		k = k.Sub(d)
	}
	return k
}

func (m *C07) checkFlows(w *world.World, where string, kind string, pre, post *mon.State, trs []mon.Transfer, claimant string) {
	in := map[string]sdk.Int{}  // p -> node
	out := map[string]sdk.Int{} // node -> p
	add := func(mp map[string]sdk.Int, k string, v sdk.Int) {
		if cur, ok := mp[k]; ok {
			mp[k] = cur.Add(v)
		} else {
			mp[k] = v
		}
	}
	for _, t := range trs {
		if t.To == mon.AddrNode && t.From != "" {
			add(in, t.From, t.Amount)
		}
		if t.From == mon.AddrNode && t.To != "" {
			add(out, t.To, t.Amount)
		}
	}
	parties := map[string]bool{}
	for p := range pre.Pledges {
		parties[p] = true
	}
	for p := range post.Pledges {
		parties[p] = true
	}
	for p := range in {
		parties[p] = true
	}
	for p := range out {
		parties[p] = true
	}
	for p := range parties {
		if _, isMod := mon.ModuleAddrs[p]; isMod {
			continue
		}
		dK := collateral(post, p).Sub(collateral(pre, p))
		i, o := in[p], out[p]
		if i.IsNil() {
			i = sdk.ZeroInt()
		}
		if o.IsNil() {
			o = sdk.ZeroInt()
		}
		net := i.Sub(o)
		if p == claimant {
			// reward claim: the whole-coin part of the settled reward leaves escrow as well (decided by
			// C08); debt repaid out of rewards raises K without a bank flow from the provider.  What must
			// hold here: the pledge amounts themselves are untouched and debt does not grow.
			m.flows++
			a, okA := pre.Pledges[p]
			b, okB := post.Pledges[p]
			if !okA || !okB {
				continue
			}
			dpre, dpost := pre.Debts[p], post.Debts[p]
			if dpre.IsNil() {
				dpre = sdk.ZeroInt()
			}
			if dpost.IsNil() {
				dpost = sdk.ZeroInt()
			}
			if !a.TotalStoragePledged.Amount.Equal(b.TotalStoragePledged.Amount) || !a.TotalShardPledged.Amount.Equal(b.TotalShardPledged.Amount) || dpost.GT(dpre) || !i.IsZero() {
				w.Violate("C07", "claim-changed-collateral", fmt.Sprintf("%s: claim by %s changed its collateral records: %s -> %s", where, shortAddr(p), pledgeStr(pre, p), pledgeStr(post, p)), nil)
			}
			continue
		}
		m.flows++
		if !net.Equal(dK) {
			_, hasPl := post.Pledges[p]
			_, hadPl := pre.Pledges[p]
			key := "collateral-book-differs-from-escrow-flow"
			if !hasPl && !hadPl {
				key = "node-escrow-paid-non-provider"
			}
			w.Violate("C07", key+":"+kind, fmt.Sprintf("%s: provider %s moved %s into and %s out of the node escrow (net %s) but its recorded collateral (capacity pledge + shard pledges - debt) changed by %s", where, shortAddr(p), i, o, net, dK),
				map[string]interface{}{"pre": pledgeStr(pre, p), "post": pledgeStr(post, p)})
		}
	}
}

func pledgeStr(s *mon.State, p string) string {
	pl, ok := s.Pledges[p]
	if !ok {
		return "none"
	}
	d := s.Debts[p]
	if d.IsNil() {
		d = sdk.ZeroInt()
	}
	return fmt.Sprintf("total=%d used=%d capPledge=%s shardPledge=%s debt=%s reward=%s", pl.TotalStorage, pl.UsedStorage, pl.TotalStoragePledged.Amount, pl.TotalShardPledged.Amount, d, pl.Reward.Amount)
}

func (m *C07) rowsOK(w *world.World, s *mon.State, where string) {
	for p, pl := range s.Pledges {
		m.rows++
		if pl.UsedStorage < 0 || pl.UsedStorage > pl.TotalStorage || pl.TotalStorage < 0 {
			w.Violate("C07", "capacity-bounds", fmt.Sprintf("%s: provider %s has used capacity %d of pledged %d", where, shortAddr(p), pl.UsedStorage, pl.TotalStorage), nil)
		}
		if pl.TotalStoragePledged.Amount.IsNegative() || pl.TotalShardPledged.Amount.IsNegative() || pl.Reward.Amount.IsNegative() {
			w.Violate("C07", "negative-pledge-field", fmt.Sprintf("%s: provider %s: %s", where, shortAddr(p), pledgeStr(s, p)), nil)
		}
	}
}

func (m *C07) Tx(w *world.World, e *world.TxEvent) {
	if e.Pre == nil || e.Post == nil {
		return
	}
	claimant := ""
	if e.Kind == "claim" && e.Signer != nil {
		claimant = e.Signer.Addr.String()
	}
	m.checkFlows(w, fmt.Sprintf("tx %s (ok=%v)", e.Kind, e.OK), e.Kind, e.Pre, e.Post, e.Transfers, claimant)
	m.journal(w, "tx "+e.Kind, e.Kind, e.Pre, e.Post)
	m.rowsOK(w, e.Post, "after tx "+e.Kind)
	if e.Kind == "remove-vstorage" && e.OK && e.Signer != nil {
		p := e.Signer.Addr.String()
		pre, ok1 := e.Pre.Pledges[p]
		post, ok2 := e.Post.Pledges[p]
		if ok1 && ok2 {
			removed := pre.TotalStorage - post.TotalStorage
			free := pre.TotalStorage - pre.UsedStorage
			if removed > free {
				w.Violate("C07", "withdrew-capacity-backing-shards", fmt.Sprintf("provider %s withdrew %d bytes with only %d free (used %d of %d)", shortAddr(p), removed, free, pre.UsedStorage, pre.TotalStorage), nil)
			}
			w.Case("c07:remove:free=%v,used=%v", free-removed == 0, pre.UsedStorage > 0)
		}
	}
	if e.OK {
		switch e.Kind {
		case "complete", "renew", "terminate", "cancel", "claim", "add-vstorage", "migrate":
			debts := len(e.Post.Debts) > 0
			w.Case("c07:%s:debts=%v:nodeflows=%d", e.Kind, debts, countNode(e.Transfers))
		}
	}
}

func countNode(trs []mon.Transfer) int {
	n := 0
	for _, t := range trs {
		if t.From == mon.AddrNode || t.To == mon.AddrNode {
			n++
		}
	}
	if n > 3 {
		n = 3
	}
	return n
}

func (m *C07) Block(w *world.World, e *world.BlockEvent) {
	if len(e.BeginTransfers) > 0 || e.PostBegin != e.Prev {
		// minting goes to the node escrow; no provider flow expected in BeginBlock
		m.checkFlows(w, "begin block", "begin", e.Prev, e.PostBegin, filterNoMint(e.BeginTransfers), "")
	}
	m.checkFlows(w, "end block", "endblock", e.PreEnd, e.Post, e.EndTransfers, "")
	m.journal(w, "end block", "endblock", e.PreEnd, e.Post)
	m.rowsOK(w, e.Post, "block boundary")
	if countNode(e.EndTransfers) > 0 {
		w.Case("c07:endblock-release:n=%d,debts=%v", countNode(e.EndTransfers), len(e.Post.Debts) > 0)
	}
}

func filterNoMint(trs []mon.Transfer) []mon.Transfer {
	var out []mon.Transfer
	for _, t := range trs {
		if t.From != "" {
			out = append(out, t)
		}
	}
	return out
}
