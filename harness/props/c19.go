package props

import (
	"fmt"
	"reflect"
	"sort"
	"strings"

	"saoverif/actors"
	"saoverif/chain"
	"saoverif/check"
	"saoverif/mon"
	"saoverif/world"

	nodetypes "github.com/SaoNetwork/sao/x/node/types"
	saotypes "github.com/SaoNetwork/sao/x/sao/types"
)

// faultTable reads all fault rows from the node store.
func faultTable(w *world.World) map[string]nodetypes.Fault {
	raw := mon.RawStores(w.C, "node")["node"]
	out := map[string]nodetypes.Fault{}
	for k, v := range raw {
		if strings.HasPrefix(k, nodetypes.FaultIdKeyPrefix) {
			var f nodetypes.Fault
			if err := w.C.App.AppCodec().Unmarshal([]byte(v), &f); err == nil {
				out[strings.TrimPrefix(k, nodetypes.FaultIdKeyPrefix)] = f
			}
		}
	}
	return out
}

// C19: fault reports.
type C19 struct {
	prev    map[string]nodetypes.Fault
	fishmen string
	checks  int64
}

func (m *C19) ID() string          { return "C19" }
func (m *C19) Done(w *world.World) { w.Count("c19.fault_messages_decided", m.checks) }

func (m *C19) Block(w *world.World, e *world.BlockEvent) {
	// the periodic penalty tick may only touch fault rows and the status of the faulty provider's node
	cur := faultTable(w)
	if e.Height%600 == 0 {
		w.Case("c19:penalty-tick:faults=%d", minInt(len(cur), 3))
	}
	for a, b := range e.PreEnd.Bal {
		if mon.ModuleAddrs[a] == "" && !b.Equal(e.Post.BalOf(a)) {
			// releases / refunds of the storage modules are legitimate end-block flows; fault processing has none:
			// attribute only when nothing else happened in this end block
			if len(e.EndTransfers) == 0 {
				w.Violate("C19", "balance-changed-in-endblock-without-transfer", fmt.Sprintf("height %d: balance of %s changed without any transfer event", e.Height, shortAddr(a)), nil)
			}
		}
	}
	m.prev = cur
}

func (m *C19) Tx(w *world.World, e *world.TxEvent) {
	if e.Pre == nil || e.Post == nil || e.Signer == nil {
		return
	}
	if m.fishmen == "" {
		m.fishmen = w.C.App.NodeKeeper.FishmenInfo(w.C.Ctx())
	}
	pre := m.prev
	if pre == nil {
		pre = map[string]nodetypes.Fault{}
	}
	post := faultTable(w)
	m.prev = post
	signer := e.Signer.Addr.String()
	var accused string
	var isReport bool
	switch msg := e.Msg.(type) {
	case *saotypes.MsgReportFaults:
		accused, isReport = msg.Provider, true
	case *saotypes.MsgRecoverFaults:
		accused = msg.Provider
	default:
		if !reflect.DeepEqual(pre, post) {
			w.Violate("C19", "fault-table-changed-by-other-message:"+e.Kind, fmt.Sprintf("tx %s changed the fault records", e.Kind), nil)
		}
		return
	}
	m.checks++
	cs := "ordinary"
	if e.Meta != nil {
		if c, ok := e.Meta["c19.case"].(string); ok {
			cs = c
		}
	}
	w.Case("c19:%s:%s:accepted=%v:changed=%v", e.Kind, cs, e.OK, !reflect.DeepEqual(pre, post))
	_, isNode := e.Pre.Nodes[signer]
	isFishman := isNode && strings.Contains(m.fishmen, signer)
	h := uint64(e.Height)
	// (a)+(b): every new or changed row
	ids := map[string]bool{}
	for id := range pre {
		ids[id] = true
	}
	for id := range post {
		ids[id] = true
	}
	for id := range ids {
		a, had := pre[id]
		b, has := post[id]
		if had && has && reflect.DeepEqual(a, b) {
			continue
		}
		f := b
		if !has {
			f = a
		}
		selfRecover := !isReport && signer == accused && f.Provider == signer && had
		if !isFishman && !selfRecover {
			w.Violate("C19", "fault-record-changed-by-unentitled-account:"+e.Kind, fmt.Sprintf("%s by %s (registered node: %v, fishman: %v) changed fault %s recorded against %s", e.Kind, shortAddr(signer), isNode, isFishman, id, shortAddr(f.Provider)), nil)
		}
		if !isReport && !had {
			w.Violate("C19", "recover-created-fault", fmt.Sprintf("a recover message created fault %s", id), nil)
		}
		if isReport && has {
			// recorded only for an existing, unexpired shard the accused holds for the named order and data model
			sh, okS := e.Pre.Shards[b.ShardId]
			o, okO := e.Pre.Orders[b.OrderId]
			_, okM := e.Pre.Metas[b.DataId]
			valid := okS && okO && okM && sh.Sp == b.Provider && sh.CreatedAt+sh.Duration > h && containsU64(o.Shards, b.ShardId) && o.DataId == b.DataId
			if !valid {
				w.Violate("C19", "fault-recorded-for-invalid-target", fmt.Sprintf("report by %s recorded fault %s against %s for shard %d / order %d / data %s, but on the state before: shard exists=%v held by %q ends %d (height %d), order exists=%v lists it=%v data=%q, model exists=%v", shortAddr(signer), id, shortAddr(b.Provider), b.ShardId, b.OrderId, b.DataId, okS, sh.Sp, sh.CreatedAt+sh.Duration, h, okO, okO && containsU64(o.Shards, b.ShardId), o.DataId, okM), nil)
			}
			if b.Provider != accused {
				w.Violate("C19", "fault-recorded-against-other-provider", fmt.Sprintf("report names provider %s but recorded a fault against %s", shortAddr(accused), shortAddr(b.Provider)), nil)
			}
		}
	}
	// (c): nothing else moves
	for a, bal := range e.Pre.Bal {
		if !bal.Equal(e.Post.BalOf(a)) {
			w.Violate("C19", "balance-changed-by-fault-message:"+e.Kind, fmt.Sprintf("%s by %s changed the balance of %s from %s to %s", e.Kind, shortAddr(signer), nameOrAddr(a), bal, e.Post.BalOf(a)), nil)
		}
	}
	if !reflect.DeepEqual(e.Pre.Orders, e.Post.Orders) || !reflect.DeepEqual(e.Pre.Shards, e.Post.Shards) {
		w.Violate("C19", "orders-or-shards-changed-by-fault-message:"+e.Kind, fmt.Sprintf("%s by %s changed order/shard records", e.Kind, shortAddr(signer)), nil)
	}
	for p, a := range e.Pre.Pledges {
		b := e.Post.Pledges[p]
		if reflect.DeepEqual(a, b) {
			continue
		}
		if p != accused {
			w.Violate("C19", "other-pledge-changed-by-fault-message:"+e.Kind, fmt.Sprintf("%s against %s changed the pledge of %s", e.Kind, shortAddr(accused), shortAddr(p)), nil)
			continue
		}
		if b.Reward.Amount.IsNegative() || b.TotalStoragePledged.Amount.IsNegative() || b.TotalShardPledged.Amount.IsNegative() || b.Reward.Amount.GT(a.Reward.Amount) || b.TotalStoragePledged.Amount.GT(a.TotalStoragePledged.Amount) {
			w.Violate("C19", "penalty-exceeds-provider-funds", fmt.Sprintf("%s changed the accused's pledge from %s to %s", e.Kind, pledgeStr(e.Pre, p), pledgeStr(e.Post, p)), nil)
		}
		if isReport {
			w.Violate("C19", "pledge-changed-by-report", fmt.Sprintf("a report changed the pledge of %s", shortAddr(p)), nil)
		}
	}
}

// ---------------------------------------------------------------- scenario

func scnFaults(ctx *check.JobCtx) {
	w := newLifeWorld(ctx, monitorsFor(ctx.Job.Prop)...)
	r := w.Rng
	fish := []*actors.Account{w.Acct("fish0"), w.Acct("fish1"), w.Acct("fish2")}
	plainNode := w.Acct("plainnode")
	nonNode := w.Acct("nonnode")
	gwA := w.Acct("gw0")
	var funded []*actors.Account
	funded = append(funded, fish...)
	funded = append(funded, plainNode, nonNode, gwA, w.Acct("pay-owner"), w.Acct("pay-owner2"))
	var spA []*actors.Account
	for i := 0; i < 4; i++ {
		spA = append(spA, w.Acct(fmt.Sprintf("sp%d", i)))
	}
	funded = append(funded, spA...)
	np := chain.DefaultNodeParams()
	np.OfflineTriggerHeight = 1_000_000
	np.BlockReward = coin(1000)
	np.MaxPenalty = 11
	np.FishmenInfo = fish[0].Addr.String() + "," + fish[1].Addr.String() + "," + fish[2].Addr.String()
	gen := w.StandardGenesis(np, funded, 10_000_000_000, nil)
	if err := w.Init(gen, 1); err != nil {
		w.Finish()
		return
	}
	gw := w.SetupProvider(gwA, 0)
	var sps []*world.Provider
	for _, a := range spA {
		sps = append(sps, w.SetupProvider(a, 100_000_000))
	}
	for _, f := range fish {
		w.CreateNode(f)
		w.ResetNode(f, 1|32, nil, "")
	}
	w.CreateNode(plainNode)
	w.ResetNode(plainNode, world.StatusAll, nil, "")
	// a registered node that declares the fishing service bit for itself without being designated
	fishBit := w.Acct("pay-owner2")
	w.CreateNode(fishBit)
	w.ResetNode(fishBit, world.StatusAll|32, nil, "")
	w.Providers = sps
	owner := w.NewKeyOwner("owner")
	w.EndBlock()
	type target struct {
		data  string
		order uint64
	}
	var targets []target
	mk := func() {
		did := w.NewDataId()
		_, oid := w.Store(world.StoreReq{Owner: owner.Id, Gateway: gw, DataId: did, CommitId: did, Duration: 3600, Replica: 2, Timeout: 500, Size: 1_000_000})
		if oid != 0 {
			if len(targets)%3 == 2 {
				// an order still in flight: its shards are assigned but have no lifetime yet; one provider stores
				if od, ok := w.Cur.Orders[oid]; ok && len(od.Shards) > 0 {
					sh := w.Cur.Shards[od.Shards[0]]
					if pr := w.ProviderByAddr(sh.Sp); pr != nil {
						w.Complete(pr.Acct, nil, oid, sh.Size_)
					}
				}
			} else {
				w.CompleteAll(oid)
			}
			targets = append(targets, target{did, oid})
		}
		w.EndBlock()
	}
	mk()
	mk()
	mk()
	reporters := []struct {
		a    *actors.Account
		name string
	}{{fish[0], "fishman"}, {fish[1], "fishman2"}, {fish[2], "fishman3"}, {plainNode, "ordinary-node"}, {nonNode, "non-node"}, {sps[0].Acct, "provider"}, {fishBit, "node-with-fishing-bit"}}
	ops := int(ctx.ArgInt("ops", 120))
	for i := 0; i < ops && !w.Halted(); i++ {
		if len(targets) == 0 {
			mk()
			continue
		}
		t := targets[r.Intn(len(targets))]
		o, ok := w.Cur.Orders[t.order]
		if !ok || len(o.Shards) == 0 {
			// expired: keep it as a source of stale reports sometimes, else replace
			if r.Intn(3) > 0 {
				mk()
			}
		}
		rep := reporters[r.Intn(len(reporters))]
		// pick a shard of the target (possibly gone)
		var shardId uint64
		var holder string
		if ok && len(o.Shards) > 0 {
			shardId = o.Shards[r.Intn(len(o.Shards))]
			holder = w.Cur.Shards[shardId].Sp
		} else {
			shardId = uint64(r.Intn(6))
			holder = sps[r.Intn(len(sps))].Acct.Addr.String()
		}
		f := &saotypes.Fault{DataId: t.data, OrderId: t.order, ShardId: shardId, CommitId: "other-commit", Provider: holder, Reporter: rep.a.Addr.String()}
		content := "matching"
		switch r.Intn(9) {
		case 0:
			f.OrderId += 1
			content = "wrong-order"
		case 1:
			f.DataId = w.NewDataId()
			content = "wrong-data"
		case 2:
			f.ShardId += 7
			content = "wrong-shard"
		case 3:
			f.CommitId = t.data // the order's own commit id
			content = "own-commit"
		case 4:
			other := sps[r.Intn(len(sps))].Acct.Addr.String()
			if other != holder {
				f.Provider = other
				content = "shard-of-other-provider"
			}
		case 5:
			if len(targets) > 1 {
				t2 := targets[(r.Intn(len(targets)-1)+1)%len(targets)]
				f.DataId = t2.data
				content = "data-of-other-order"
			}
		}
		accused := f.Provider
		if r.Intn(8) == 0 {
			accused = sps[r.Intn(len(sps))].Acct.Addr.String()
			if accused != f.Provider {
				content += "+provider-mismatch"
			}
		}
		if !ok {
			content += "+expired"
		} else if sh, okS := w.Cur.Shards[f.ShardId]; okS && sh.Status != ShardCompleted {
			content += "+shard-not-live"
		}
		switch r.Intn(5) {
		case 0, 1, 2:
			m := &saotypes.MsgReportFaults{Creator: rep.a.Addr.String(), Provider: accused, Faults: []*saotypes.Fault{f}}
			if r.Intn(4) == 0 {
				m.Faults = append(m.Faults, f) // duplicate inside one message
				content += "+dup"
			}
			if r.Intn(3) == 0 && ok && len(o.Shards) > 0 {
				// a batch: a genuine entry about the accused next to entries that are not (other provider's shard,
				// another order's shard, a shard id that does not exist), in either order
				var own *saotypes.Fault
				for _, sid := range o.Shards {
					if sh, okS := w.Cur.Shards[sid]; okS && sh.Sp == accused {
						own = &saotypes.Fault{DataId: t.data, OrderId: t.order, ShardId: sid, CommitId: "other-commit", Provider: accused, Reporter: rep.a.Addr.String()}
					}
				}
				var bad []*saotypes.Fault
				for _, sid := range o.Shards {
					if sh, okS := w.Cur.Shards[sid]; okS && sh.Sp != accused {
						bad = append(bad, &saotypes.Fault{DataId: t.data, OrderId: t.order, ShardId: sid, CommitId: "other-commit", Provider: accused, Reporter: rep.a.Addr.String()})
					}
				}
				bad = append(bad, &saotypes.Fault{DataId: t.data, OrderId: t.order, ShardId: 100000 + uint64(i), CommitId: "other-commit", Provider: accused, Reporter: rep.a.Addr.String()})
				if len(targets) > 1 {
					t2 := targets[(r.Intn(len(targets)-1)+1)%len(targets)]
					if o2, ok2 := w.Cur.Orders[t2.order]; ok2 && len(o2.Shards) > 0 && t2.order != t.order {
						bad = append(bad, &saotypes.Fault{DataId: t.data, OrderId: t.order, ShardId: o2.Shards[0], CommitId: "other-commit", Provider: accused, Reporter: rep.a.Addr.String()})
					}
				}
				if own != nil {
					if r.Intn(2) == 0 {
						m.Faults = append([]*saotypes.Fault{own}, bad...)
						content = "batch/genuine-first"
					} else {
						m.Faults = append(bad, own)
						content = "batch/genuine-last"
					}
				}
			}
			w.Deliver("report-faults", rep.a, map[string]interface{}{"c19.case": rep.name + "/" + content}, m)
		case 3:
			// recovery declared by the accused provider itself, or by somebody else
			who := rep.a
			name := rep.name
			if p := w.ProviderByAddr(accused); p != nil && r.Intn(2) == 0 {
				who, name = p.Acct, "accused-itself"
			}
			f2 := *f
			f2.CommitId = t.data
			m := &saotypes.MsgRecoverFaults{Creator: who.Addr.String(), Provider: accused, Faults: []*saotypes.Fault{&f2}}
			w.Deliver("recover-faults", who, map[string]interface{}{"c19.case": name + "/" + content}, m)
		case 4:
			if r.Intn(4) == 0 && ok {
				// a holder starts to hand its shard over: the receiving provider's shard is listed but not live yet
				for _, sid := range o.Shards {
					if sh, okS := w.Cur.Shards[sid]; okS && sh.Status == ShardCompleted {
						if pr := w.ProviderByAddr(sh.Sp); pr != nil {
							w.Migrate(pr.Acct, t.data)
							break
						}
					}
				}
			} else if r.Intn(3) == 0 {
				// cross a penalty tick
				next := (w.C.Height/600 + 1) * 600
				w.AdvanceTo(next + 1)
			} else {
				w.Advance(int64(1 + r.Intn(400)))
			}
		}
		if r.Intn(3) == 0 && w.C.InBlock {
			w.EndBlock()
		}
	}
	keys := make([]string, 0)
	for k := range faultTable(w) {
		keys = append(keys, k)
	}
	sort.Strings(keys)
	w.Sample("fault walk: %d fault rows at end; %s", len(keys), traceSummary(w))
	w.Finish()
}
