package props

import (
	"fmt"
	"reflect"
	"strings"

	"saoverif/actors"
	"saoverif/chain"
	"saoverif/check"
	"saoverif/mon"
	"saoverif/world"

	didtypes "github.com/SaoNetwork/sao/x/did/types"
	nodetypes "github.com/SaoNetwork/sao/x/node/types"
	saotypes "github.com/SaoNetwork/sao/x/sao/types"
)

// C10: actor authorization.  The oracle looks at every accepted transaction
// (of any workload) and decides from the pre-state whether its signer was
// entitled to the effect it had.
type C10 struct{ decided int64 }

func (m *C10) ID() string                                { return "C10" }
func (m *C10) Done(w *world.World)                       { w.Count("c10.accepted_actions_decided", m.decided) }
func (m *C10) Block(w *world.World, e *world.BlockEvent) {}

// actsFor: signer is node n itself or an address n registered for itself.
func actsFor(s *mon.State, signer, n string) bool {
	if signer == n {
		return true
	}
	if nd, ok := s.Nodes[n]; ok {
		for _, a := range nd.TxAddresses {
			if a == signer {
				return true
			}
		}
	}
	return false
}

func advTag(e *world.TxEvent) string {
	if e.Meta != nil {
		if t, ok := e.Meta["c10.case"].(string); ok {
			return t
		}
	}
	return "ordinary"
}

func (m *C10) Tx(w *world.World, e *world.TxEvent) {
	if e.Pre == nil || e.Post == nil || e.Signer == nil {
		return
	}
	signer := e.Signer.Addr.String()
	tag := advTag(e)
	if tag != "ordinary" {
		w.Case("c10:%s:accepted=%v", tag, e.OK)
	}
	if !e.OK {
		return
	}
	switch msg := e.Msg.(type) {
	case *saotypes.MsgComplete:
		for sid, sh := range e.Post.Shards {
			pre, had := e.Pre.Shards[sid]
			if sh.Status == ShardCompleted && had && pre.Status != ShardCompleted {
				m.decided++
				if !actsFor(e.Pre, signer, pre.Sp) {
					w.Violate("C10", "complete-by-non-provider:"+tag, fmt.Sprintf("shard %d assigned to %s was reported stored by %s (claimed provider %s), which is neither that provider nor an address it registered", sid, shortAddr(pre.Sp), shortAddr(signer), shortAddr(msg.Provider)), nil)
				}
			}
		}
	case *saotypes.MsgCancel:
		o, ok := e.Pre.Orders[msg.OrderId]
		if !ok {
			return
		}
		m.decided++
		okAuth := signer == o.Creator
		if !okAuth {
			// the gateway named in the order, if the creating account demonstrably belongs to it
			if gw, ok := e.Pre.Nodes[o.Provider]; ok {
				belongs := o.Creator == gw.Creator
				for _, a := range gw.TxAddresses {
					if a == o.Creator {
						belongs = true
					}
				}
				if belongs && actsFor(e.Pre, signer, o.Provider) {
					okAuth = true
				}
			}
		}
		if !okAuth {
			w.Violate("C10", "cancel-by-third-party:"+tag, fmt.Sprintf("order %d (creator %s, gateway %s) was cancelled by %s claiming provider %s", o.Id, shortAddr(o.Creator), shortAddr(o.Provider), shortAddr(signer), shortAddr(msg.Provider)), nil)
		}
	case *saotypes.MsgReady:
		if o, ok := e.Pre.Orders[msg.OrderId]; ok {
			m.decided++
			if !actsFor(e.Pre, signer, o.Provider) {
				w.Violate("C10", "ready-by-non-gateway:"+tag, fmt.Sprintf("order %d names gateway %s but %s made it ready", o.Id, shortAddr(o.Provider), shortAddr(signer)), nil)
			}
		}
	case *saotypes.MsgMigrate:
		for sid, sh := range e.Post.Shards {
			if _, had := e.Pre.Shards[sid]; had || sh.Status != ShardMigrating {
				continue
			}
			m.decided++
			if !actsFor(e.Pre, signer, sh.From) {
				w.Violate("C10", "migrate-by-non-holder:"+tag, fmt.Sprintf("%s started a migration of a shard held by %s", shortAddr(signer), shortAddr(sh.From)), nil)
			}
		}
	case *saotypes.MsgStore:
		p := msg.Proposal
		for _, t := range e.Transfers {
			if t.To != mon.AddrOrder {
				continue
			}
			m.decided++
			if p.PaymentDid != "" {
				if t.From != e.Pre.PayAddr[p.PaymentDid] || signer != t.From {
					w.Violate("C10", "sponsor-charged-by-someone-else:"+tag, fmt.Sprintf("store debited %s (sponsor %s) but was submitted by %s", shortAddr(t.From), p.PaymentDid, shortAddr(signer)), nil)
				}
				continue
			}
			// bound to the owner: the registry row AND the owner DID's own account list say so (the account list is
			// what the owner maintains through bindings and rotations)
			bound := e.Pre.DidOf["cosmos:"+chain.ChainID+":"+signer] == p.Owner && accountListed(w, p.Owner, "cosmos:"+chain.ChainID+":"+signer)
			viaGateway := msg.Provider == p.Provider && actsFor(e.Pre, signer, p.Provider)
			if _, isNode := e.Pre.Nodes[p.Provider]; !isNode {
				viaGateway = false
			}
			if !bound && !viaGateway {
				w.Violate("C10", "owner-charged-by-unrelated-submitter:"+tag, fmt.Sprintf("store debited %s, the payment address of owner %s, but was submitted by %s which is neither the named gateway %s (or an address it registered) nor bound to the owner", shortAddr(t.From), p.Owner, shortAddr(signer), shortAddr(p.Provider)), nil)
			}
		}
	case *nodetypes.MsgReset, *nodetypes.MsgAddVstorage, *nodetypes.MsgRemoveVstorage, *nodetypes.MsgClaimReward, *nodetypes.MsgCreate:
		m.decided++
		for a, n := range e.Pre.Nodes {
			if a == signer {
				continue
			}
			if !reflect.DeepEqual(n, e.Post.Nodes[a]) {
				w.Violate("C10", "node-changed-by-other-account:"+tag, fmt.Sprintf("%s by %s changed the node record of %s", e.Kind, shortAddr(signer), shortAddr(a)), nil)
			}
		}
		for a, pl := range e.Pre.Pledges {
			if a == signer {
				continue
			}
			q := e.Post.Pledges[a]
			if pl.TotalStorage != q.TotalStorage || pl.UsedStorage != q.UsedStorage || !pl.TotalStoragePledged.IsEqual(q.TotalStoragePledged) || !pl.TotalShardPledged.IsEqual(q.TotalShardPledged) || !pl.Reward.Amount.Equal(q.Reward.Amount) {
				w.Violate("C10", "pledge-changed-by-other-account:"+tag, fmt.Sprintf("%s by %s changed the pledge of %s: %s -> %s", e.Kind, shortAddr(signer), shortAddr(a), pledgeStr(e.Pre, a), pledgeStr(e.Post, a)), nil)
			}
		}
		for a, b := range e.Pre.Bal {
			if a == signer || mon.ModuleAddrs[a] != "" {
				continue
			}
			if !b.Equal(e.Post.BalOf(a)) {
				w.Violate("C10", "balance-changed-by-node-message:"+tag, fmt.Sprintf("%s by %s changed the balance of %s", e.Kind, shortAddr(signer), shortAddr(a)), nil)
			}
		}
	}
}

// ---------------------------------------------------------------- scenario

func scnActor(ctx *check.JobCtx) {
	w := newLifeWorld(ctx, monitorsFor(ctx.Job.Prop)...)
	a := setupAuthz(w)
	if w.Halted() {
		w.Finish()
		return
	}
	att := w.Acct("attacker")
	att2 := w.Acct("nonnode")
	victimsTx := []string{a.gw.Acct.Addr.String(), a.gw.HotKeys[0].Addr.String(), a.sps[0].Acct.Addr.String(), a.sps[1].Acct.Addr.String(), a.owner.Pay.Addr.String(), a.sowner.Pay.Addr.String()}
	w.CreateNode(att)
	w.AddVstorage(att, 50_000_000)
	// the attacker's node declares the victims' addresses AND its own second account as its transaction addresses
	w.ResetNode(att, world.StatusAll, append(append([]string{}, victimsTx...), att2.Addr.String()), "")
	// the first victim provider lists its own account next to a delegate; the second lists only a delegate
	spHot := w.Acct("pay-ro")
	w.ResetNode(a.sps[0].Acct, world.StatusAll, []string{a.sps[0].Acct.Addr.String(), spHot.Addr.String()}, "")
	w.ResetNode(a.sps[1].Acct, world.StatusAll, []string{spHot.Addr.String()}, "")
	w.EndBlock()
	rounds := int(ctx.ArgInt("rounds", 2))
	adv := func(cs string) map[string]interface{} { return map[string]interface{}{"c10.case": cs} }
	claims := []struct {
		name string
		addr func() string
	}{
		{"self", func() string { return att.Addr.String() }},
		{"victim-gateway", func() string { return a.gw.Acct.Addr.String() }},
		{"victim-provider", func() string { return a.sps[0].Acct.Addr.String() }},
		{"non-node", func() string { return att2.Addr.String() }},
	}
	for r := 0; r < rounds && !w.Halted(); r++ {
		// victim objects: a data-ready order created by the gateway's hot key, a pending order created by the
		// sid owner's own account, a completed model
		did1 := w.NewDataId()
		_, ready := w.Store(world.StoreReq{Owner: a.owner.Id, Gateway: a.gw, Relayer: a.gw.HotKeys[0], DataId: did1, CommitId: did1, Duration: 3600, Replica: 2, Timeout: 500, Size: 1000})
		did2 := w.NewDataId()
		_, pending := w.Store(world.StoreReq{Owner: a.sowner.Id, Gateway: a.gw, Relayer: a.sowner.Pay, MsgProv: a.sowner.Pay.Addr.String(), DataId: did2, CommitId: did2, Duration: 3600, Replica: 1, Timeout: 500, Size: 1000})
		done := a.newModel(a.owner, 4) // every victim provider holds a shard of it
		w.EndBlock()
		for _, signer := range []*actors.Account{att, att2} {
			sname := map[*actors.Account]string{att: "attacker-node", att2: "attacker-account"}[signer]
			for _, cl := range claims {
				prov := cl.addr()
				tag := func(k string) map[string]interface{} { return adv(k + "/" + sname + "/claims-" + cl.name) }
				// cancel other people's orders
				for _, oid := range []uint64{ready, pending} {
					if _, ok := w.Cur.Orders[oid]; ok {
						w.Deliver("cancel", signer, tag("cancel"), saotypes.NewMsgCancel(signer.Addr.String(), oid, prov))
					}
				}
				// report other providers' shards as stored
				if o, ok := w.Cur.Orders[ready]; ok {
					for _, sid := range o.Shards {
						if sh, ok := w.Cur.Shards[sid]; ok && sh.Status == ShardWaiting {
							w.Deliver("complete", signer, tag("complete"), saotypes.NewMsgComplete(signer.Addr.String(), ready, world.Cid1, sh.Size_, prov))
							w.Deliver("complete", signer, tag("complete-as-sp"), saotypes.NewMsgComplete(signer.Addr.String(), ready, world.Cid1, sh.Size_, sh.Sp))
						}
					}
				}
				// make someone else's pending order ready
				if _, ok := w.Cur.Orders[pending]; ok {
					w.Deliver("ready", signer, tag("ready"), saotypes.NewMsgReady(signer.Addr.String(), pending, prov))
				}
				// migrate other providers' shards away
				if done != "" {
					w.Deliver("migrate", signer, tag("migrate"), saotypes.NewMsgMigrate(signer.Addr.String(), []string{done}, prov))
				}
				// submit a captured owner-signed proposal naming the victim gateway
				did3 := w.NewDataId()
				m, _ := w.BuildStore(world.StoreReq{Owner: a.owner.Id, Gateway: a.gw, DataId: did3, CommitId: did3, Duration: 3600, Replica: 1, Timeout: 500, Size: 1000})
				m.Creator = signer.Addr.String()
				m.Provider = prov
				w.Deliver("store", signer, tag("store-captured-proposal"), m)
				// a sponsored proposal submitted by someone who is not the sponsor
				did4 := w.NewDataId()
				m2, _ := w.BuildStore(world.StoreReq{Owner: a.stranger.Id, Gateway: a.gw, DataId: did4, CommitId: did4, Duration: 3600, Replica: 1, Timeout: 500, Size: 1000, Sponsor: a.owner.Id.DID()})
				m2.Creator = signer.Addr.String()
				m2.Provider = prov
				w.Deliver("store", signer, tag("store-on-sponsor"), m2)
				// an owner-signed proposal naming the owner itself as the payer, submitted by an unrelated account
				for _, ow := range []*world.Owner{a.owner, a.sowner} {
					did6 := w.NewDataId()
					m3, _ := w.BuildStore(world.StoreReq{Owner: ow.Id, Gateway: a.gw, DataId: did6, CommitId: did6, Duration: 3600, Replica: 1, Timeout: 500, Size: 1000, Sponsor: ow.Id.DID()})
					m3.Creator = signer.Addr.String()
					m3.Provider = prov
					w.Deliver("store", signer, tag("store-selfpaid-proposal"), m3)
				}
				if w.C.InBlock {
					w.EndBlock()
				}
			}
			// node messages with foreign creator fields cannot even be signed for someone else: the tx signer is the creator.
			// what remains is a signer acting on its own node while others must stay untouched:
			w.Deliver("claim", signer, adv("claim/"+sname), nodetypes.NewMsgClaimReward(signer.Addr.String()))
			w.Deliver("remove-vstorage", signer, adv("remove-vstorage/"+sname), nodetypes.NewMsgRemoveVstorage(signer.Addr.String(), 1_000_000))
			w.Deliver("node-reset", signer, adv("reset/"+sname), &nodetypes.MsgReset{Creator: signer.Addr.String(), Status: world.StatusAll, TxAddresses: append(append([]string{}, victimsTx...), att2.Addr.String())})
		}
		// legitimate controls: the rightful actors succeed
		if _, ok := w.Cur.Orders[pending]; ok {
			w.Deliver("ready", a.gw.Acct, adv("control/ready/gateway"), saotypes.NewMsgReady(a.gw.Acct.Addr.String(), pending, a.gw.Acct.Addr.String()))
		}
		if o, ok := w.Cur.Orders[ready]; ok {
			for i, sid := range o.Shards {
				if sh, ok := w.Cur.Shards[sid]; ok && sh.Status == ShardWaiting {
					if p := w.ProviderByAddr(sh.Sp); p != nil && i == 0 {
						w.Deliver("complete", p.Acct, adv("control/complete/provider"), saotypes.NewMsgComplete(p.Acct.Addr.String(), ready, world.Cid1, sh.Size_, sh.Sp))
					}
				}
			}
		}
		did5 := w.NewDataId()
		_, o5 := w.Store(world.StoreReq{Owner: a.owner.Id, Gateway: a.gw, Relayer: a.gw.HotKeys[0], DataId: did5, CommitId: did5, Duration: 3600, Replica: 1, Timeout: 500, Size: 1000})
		if o5 != 0 {
			// the gateway itself cancels the order its hot key created
			w.Deliver("cancel", a.gw.Acct, adv("control/cancel/gateway-for-hotkey"), saotypes.NewMsgCancel(a.gw.Acct.Addr.String(), o5, a.gw.Acct.Addr.String()))
		}
		did6 := w.NewDataId()
		_, o6 := w.Store(world.StoreReq{Owner: a.owner.Id, Gateway: a.gw, Relayer: a.gw.HotKeys[0], DataId: did6, CommitId: did6, Duration: 3600, Replica: 1, Timeout: 500, Size: 1000})
		if o6 != 0 {
			w.Deliver("cancel", a.gw.HotKeys[0], adv("control/cancel/creator-hotkey"), saotypes.NewMsgCancel(a.gw.HotKeys[0].Addr.String(), o6, a.gw.Acct.Addr.String()))
		}
		did7 := w.NewDataId()
		if _, o7 := w.Store(world.StoreReq{Owner: a.owner.Id, Gateway: a.gw, Relayer: a.owner.Pay, MsgProv: a.owner.Pay.Addr.String(), DataId: did7, CommitId: did7, Duration: 3600, Replica: 1, Timeout: 500, Size: 1000,
			Sponsor: a.owner.Id.DID(), Meta: adv("control/store/selfpaid-by-payment-address")}); o7 != 0 {
			w.Cancel(a.owner.Pay, o7, a.owner.Pay.Addr.String())
		}
		if r == 0 {
			// control: the delegate a provider registered may hand the provider's shards over
			w.Deliver("migrate", spHot, adv("control/migrate/registered-delegate"), saotypes.NewMsgMigrate(spHot.Addr.String(), []string{done}, a.sps[1].Acct.Addr.String()))
		}
		w.Deliver("migrate", a.sps[0].Acct, adv("control/migrate/holder"), saotypes.NewMsgMigrate(a.sps[0].Acct.Addr.String(), []string{done}, a.sps[0].Acct.Addr.String()))
		w.EndBlock()
		w.Advance(int64(1 + w.Rng.Intn(20)))
	}
	// an account that was unbound from the owner's sid by a key rotation submits an owner-signed store
	if !w.Halted() {
		second := w.Acct("pay-revoked") // a funded account, bound as the sid owner's second account
		sid := a.sowner.Id.(*actors.SidDid)
		ts := uint64(chain.BlockTime(w.H()).Unix())
		w.BindSid(a.sowner.Pay, second, sid, ts, nil)
		w.EndBlock()
		didX := w.NewDataId()
		mk := func() (*saotypes.MsgStore, *actors.Account) {
			return w.BuildStore(world.StoreReq{Owner: a.sowner.Id, Gateway: a.gw, Relayer: second, MsgProv: second.Addr.String(), DataId: didX, CommitId: didX, Duration: 3600, Replica: 1, Timeout: 500, Size: 1000})
		}
		// control: while bound, the second account may submit (order stays pending until the gateway is ready)
		m1, _ := mk()
		e1 := w.Deliver("store", second, adv("control/store/bound-second-account"), m1)
		if id, ok := world.AttrU64(e1.Marks, "new-order", "order-id"); ok && e1.OK {
			w.Cancel(second, id, second.Addr.String())
		}
		w.EndBlock()
		// rotation that unbinds the second account
		st := snapshotDid(w.C)
		var remove []string
		var keep []*didtypes.AccountAuth
		for _, ad := range st.AccountList[sid.DID()] {
			if st.AccountId[ad] == second.AccountID() {
				remove = append(remove, ad)
			} else {
				keep = append(keep, &didtypes.AccountAuth{AccountDid: ad, AccountEncryptedSeed: "s2", SidEncryptedAccount: "a2"})
			}
		}
		ts2 := uint64(chain.BlockTime(w.H()).Unix())
		nv := actors.NewSidVersion(sid.Name, 7, ts2)
		up := &didtypes.MsgUpdate{Creator: a.sowner.Pay.Addr.String(), Did: sid.DID(), NewDocId: nv.DocId, Keys: nv.Keys, Timestamp: ts2, UpdateAccountAuth: keep, RemoveAccountDid: remove, PastSeed: "seed-x"}
		if e := w.Deliver("did-update", a.sowner.Pay, nil, up); e.OK {
			sid.Versions = append(sid.Versions, nv)
			w.EndBlock()
			didX = w.NewDataId()
			m2, _ := mk()
			w.Deliver("store", second, adv("store-by-unbound-former-account"), m2)
		}
		w.EndBlock()
	}
	w.Sample("actor-authorization probes: %s", traceSummary(w))
	w.Finish()
}

// accountListed: the DID's account list contains an account-did that maps to this account id.
func accountListed(w *world.World, did, accountId string) bool {
	ctx := w.C.Ctx()
	_ = ctx
	st := snapshotDid(w.C)
	if len(st.AccountList) == 0 && len(st.AccountId) == 0 {
		return true // key DIDs have no account list
	}
	if _, isSid := st.Versions[strings.TrimPrefix(did, "did:sid:")]; !isSid {
		return true
	}
	for _, ad := range st.AccountList[did] {
		if st.AccountId[ad] == accountId {
			return true
		}
	}
	return false
}
