package props

import (
	"fmt"
	"math/big"

	"saoverif/mon"
	"saoverif/world"

	nodemod "github.com/SaoNetwork/sao/x/node"
	nodetypes "github.com/SaoNetwork/sao/x/node/types"
	sdk "github.com/cosmos/cosmos-sdk/types"
)

// C08: block-reward accounting.  Needs World.BeginStates (snapshot after BeginBlock).
type C08 struct {
	params     nodetypes.Params
	haveParams bool
	minted     sdk.Int
	claimed    map[string]sdk.Int  // block rewards paid out or used to repay debt, per provider
	expected   map[string]*big.Rat // exact pro-rata share per provider
	lastAge    uint
	blocks     int64
	mintBlocks int64
	capSum     *big.Rat // sum over minted blocks of max capacity (rounding allowance)
	checks     int64
	penalised  map[string]bool
}

func NewC08() *C08 {
	return &C08{minted: sdk.ZeroInt(), claimed: map[string]sdk.Int{}, expected: map[string]*big.Rat{}, capSum: new(big.Rat), penalised: map[string]bool{}}
}

func (m *C08) ID() string { return "C08" }
func (m *C08) Done(w *world.World) {
	w.Count("c08.checks", m.checks)
	w.Count("c08.minting_blocks", m.mintBlocks)
	w.Count("c08.minted_total", m.minted.Int64())
}

func ratOfDec(d sdk.Dec) *big.Rat {
	return new(big.Rat).SetFrac(d.BigInt(), new(big.Int).Exp(big.NewInt(10), big.NewInt(18), nil))
}

func (m *C08) Tx(w *world.World, e *world.TxEvent) {
	if e.Pre == nil || e.Post == nil {
		return
	}
	// no transaction creates or destroys coins of the storage modules
	m.checks++
	if !e.Pre.Supply.Equal(e.Post.Supply) {
		w.Violate("C08", "supply-changed-by-transaction:"+e.Kind, fmt.Sprintf("tx %s changed the coin supply from %s to %s", e.Kind, e.Pre.Supply, e.Post.Supply), nil)
	}
	if e.Kind == "recover-faults" && e.OK {
		for p := range e.Post.Pledges {
			if !e.Pre.Pledges[p].Reward.Amount.Equal(e.Post.Pledges[p].Reward.Amount) {
				m.penalised[p] = true
			}
		}
	}
	if e.Kind != "claim" || !e.OK || e.Signer == nil {
		// the node escrow pays block rewards only in a claim by the claimant: decided with collateral flows in C07
		return
	}
	p := e.Signer.Addr.String()
	pre, ok1 := e.Pre.Pledges[p]
	post, ok2 := e.Post.Pledges[p]
	if !ok1 || !ok2 {
		return
	}
	settled := pre.Reward.Amount
	if e.Pre.PoolFound && pre.TotalStorage > 0 {
		settled = settled.Add(e.Pre.Pool.AccRewardPerByte.Amount.MulInt64(pre.TotalStorage).Sub(pre.RewardDebt.Amount))
	}
	whole := settled.TruncateInt()
	paid := sdk.ZeroInt()
	for _, t := range e.Transfers {
		if t.From == mon.AddrNode {
			if t.To != p {
				w.Violate("C08", "reward-paid-to-someone-else", fmt.Sprintf("claim by %s paid %s from the node escrow to %s", shortAddr(p), t.Amount, shortAddr(t.To)), nil)
			}
			paid = paid.Add(t.Amount)
		}
	}
	dpre, dpost := e.Pre.Debts[p], e.Post.Debts[p]
	if dpre.IsNil() {
		dpre = sdk.ZeroInt()
	}
	if dpost.IsNil() {
		dpost = sdk.ZeroInt()
	}
	// recorded debt is repaid from the whole-coin reward first
	applied := whole
	if dpre.LT(applied) {
		applied = dpre
	}
	want := whole.Sub(applied)
	m.checks++
	if !paid.Equal(want) || dpost.GT(dpre.Sub(applied)) {
		w.Violate("C08", "claim-amount", fmt.Sprintf("claim by %s: settled reward %s (whole part %s), recorded debt %s -> %s: expected %s paid from the node escrow, got %s", shortAddr(p), settled, whole, dpre, dpost, want, paid), nil)
	}
	if !post.Reward.Amount.Equal(settled.Sub(sdk.NewDecFromInt(whole))) {
		w.Violate("C08", "claim-remainder", fmt.Sprintf("claim by %s: settled %s, whole part %s, but %s remains recorded", shortAddr(p), settled, whole, post.Reward.Amount), nil)
	}
	used := whole // left the provider's claimable balance (paid out or applied to debt)
	if c, ok := m.claimed[p]; ok {
		m.claimed[p] = c.Add(used)
	} else {
		m.claimed[p] = used
	}
	w.Case("c08:claim:whole>0=%v,debt=%v", whole.IsPositive(), dpre.IsPositive())
}

func (m *C08) Block(w *world.World, e *world.BlockEvent) {
	if !m.haveParams {
		m.params = w.C.App.NodeKeeper.GetParams(w.C.Ctx())
		m.haveParams = true
	}
	m.blocks++
	prev, pb := e.Prev, e.PostBegin
	// coins created in this block
	minted := sdk.ZeroInt()
	for _, t := range e.BeginTransfers {
		if t.From == "" {
			if t.To != mon.AddrNode {
				continue // SDK mint module (inflation is zero in these genesis files) — not a storage module
			}
			minted = minted.Add(t.Amount)
		}
	}
	m.checks += 4
	dSupply := e.Post.Supply.Sub(prev.Supply)
	if !dSupply.Equal(minted) {
		w.Violate("C08", "supply-change-differs-from-block-reward", fmt.Sprintf("height %d: coin supply changed by %s but the node module minted %s in BeginBlock", e.Height, dSupply, minted), nil)
	}
	if !prev.PoolFound || !pb.PoolFound {
		return
	}
	dReward := pb.Pool.TotalReward.Amount.Sub(prev.Pool.TotalReward.Amount)
	if !dReward.Equal(minted) {
		w.Violate("C08", "reward-counter-differs-from-minted", fmt.Sprintf("height %d: cumulative reward counter moved by %s but %s were minted", e.Height, dReward, minted), nil)
	}
	age := rewardAgeRef(prev.Pool.TotalReward.Amount)
	if got := nodemod.GetRewardAge(prev.Pool); got != age {
		w.Violate("C08", "halving-age-differs-from-schedule", fmt.Sprintf("height %d: %s of 400000000000000 minted so far: the halving age is %d, the chain computes %d", e.Height, prev.Pool.TotalReward.Amount, age, got), nil)
	}
	if age < m.lastAge {
		w.Violate("C08", "halving-age-decreased", fmt.Sprintf("height %d: halving age went from %d to %d", e.Height, m.lastAge, age), nil)
	}
	m.lastAge = age
	cap := new(big.Int).Rsh(m.params.BlockReward.Amount.BigInt(), age)
	if minted.BigInt().Cmp(cap) > 0 {
		w.Violate("C08", "minted-more-than-block-reward", fmt.Sprintf("height %d: minted %s, block reward for age %d is %s", e.Height, minted, age, cap), nil)
	}
	if prev.Pool.TotalPledged.Amount.IsZero() && minted.IsPositive() {
		w.Violate("C08", "minted-without-pledge", fmt.Sprintf("height %d: minted %s while nothing is pledged", e.Height, minted), nil)
	}
	if prev.Pool.TotalPledged.Amount.LT(m.params.Baseline.Amount) {
		apy, err := sdk.NewDecFromStr(m.params.AnnualPercentageYield)
		if err == nil {
			base := sdk.NewDecFromInt(prev.Pool.TotalPledged.Amount).Mul(apy).QuoInt64(m.params.HalvingPeriod / 2).TruncateInt()
			if minted.GT(base) {
				w.Violate("C08", "minted-more-than-baseline-rate", fmt.Sprintf("height %d: minted %s while pledge %s is below baseline %s (baseline rate %s)", e.Height, minted, prev.Pool.TotalPledged.Amount, m.params.Baseline.Amount, base), nil)
			}
		}
	}
	if minted.IsPositive() {
		m.mintBlocks++
		m.minted = m.minted.Add(minted)
		// "in proportion to pledged capacity": the denominator is the capacity actually pledged by the providers,
		// not the pool's own running total
		tot := int64(0)
		for _, pl := range prev.Pledges {
			if pl.TotalStorage > 0 {
				tot += pl.TotalStorage
			}
		}
		if tot > 0 {
			maxCap := int64(0)
			for p, pl := range prev.Pledges {
				if pl.TotalStorage <= 0 {
					continue
				}
				share := new(big.Rat).SetFrac(new(big.Int).Mul(minted.BigInt(), big.NewInt(pl.TotalStorage)), big.NewInt(tot))
				if cur, ok := m.expected[p]; ok {
					cur.Add(cur, share)
				} else {
					m.expected[p] = share
				}
				if pl.TotalStorage > maxCap {
					maxCap = pl.TotalStorage
				}
			}
			m.capSum.Add(m.capSum, new(big.Rat).SetInt64(maxCap))
		}
		w.Case("c08:mint:age=%d,below-baseline=%v,providers=%d", age, prev.Pool.TotalPledged.Amount.LT(m.params.Baseline.Amount), bucket(len(prev.Pledges)))
	}
	// pro-rata law and global bound, on the committed state
	s := e.Post
	eps := new(big.Rat).Mul(m.capSum, big.NewRat(1, 1_000_000_000_000_000_000)) // 1e-18 per byte per minted block
	eps.Add(eps, big.NewRat(1, 1_000_000_000))
	total := new(big.Rat)
	for p, pl := range s.Pledges {
		obs := ratOfDec(pl.Reward.Amount)
		if s.PoolFound && pl.TotalStorage > 0 {
			obs.Add(obs, ratOfDec(s.Pool.AccRewardPerByte.Amount.MulInt64(pl.TotalStorage).Sub(pl.RewardDebt.Amount)))
		}
		if c, ok := m.claimed[p]; ok {
			obs.Add(obs, new(big.Rat).SetInt(c.BigInt()))
		}
		total.Add(total, obs)
		if m.penalised[p] {
			continue
		}
		exp := m.expected[p]
		if exp == nil {
			exp = new(big.Rat)
		}
		diff := new(big.Rat).Sub(obs, exp)
		diff.Abs(diff)
		m.checks++
		if diff.Cmp(eps) > 0 {
			w.Violate("C08", "reward-share-not-pro-rata", fmt.Sprintf("height %d: provider %s has claimed+claimable rewards %s but its pro-rata share (capacity x blocks) of the minted coins is %s", e.Height, shortAddr(p), obs.FloatString(9), exp.FloatString(9)), nil)
		}
	}
	m.checks++
	lim := new(big.Rat).Add(new(big.Rat).SetInt(m.minted.BigInt()), eps)
	if total.Cmp(lim) > 0 {
		w.Violate("C08", "claimed-plus-claimable-exceeds-minted", fmt.Sprintf("height %d: claimed+claimable %s exceeds minted %s", e.Height, total.FloatString(9), m.minted), nil)
	}
}

// rewardAgeRef: the halving age in integers — the number of times the not-yet-minted remainder of the
// 4e14 total has halved: floor(log2(total / remaining)); 256 once everything is minted.
func rewardAgeRef(minted sdk.Int) uint {
	total, _ := sdk.NewIntFromString("400000000000000")
	if minted.GTE(total) {
		return 256
	}
	ratio := total.Quo(total.Sub(minted))
	return uint(ratio.BigInt().BitLen() - 1)
}
