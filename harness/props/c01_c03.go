package props

import (
	"fmt"
	"os"
	"path/filepath"
	"strconv"
	"strings"
	"sync"

	"saoverif/check"
	"saoverif/replica"
	"saoverif/world"

	abci "github.com/tendermint/tendermint/abci/types"
)

// recordDir, when set, makes newLifeWorld record the consensus stream of the scenario it builds.
var recordDir string

// leaderScenarios maps a leader name to the scenario function that produces the stream.
func runLeader(ctx *check.JobCtx, name string) {
	parts := strings.SplitN(name, ":", 2)
	args := map[string]string{}
	for k, v := range ctx.Job.Args {
		args[k] = v
	}
	if len(parts) == 2 {
		args["profile"] = parts[1]
	}
	sub := &check.JobCtx{Job: check.Job{Prop: "NONE", Scenario: parts[0], Seed: ctx.Job.Seed, Args: args}, Res: ctx.Res, Extra: ctx.Extra}
	switch parts[0] {
	case "life":
		scnLife(sub)
	case "authz":
		scnAuthz(sub)
	case "actor":
		scnActor(sub)
	case "didreg":
		scnDidReg(sub)
	case "staking":
		scnStaking(sub)
	case "faults":
		scnFaults(sub)
	case "selection":
		scnSelection(sub)
	case "renewals":
		if len(parts) == 2 {
			sub.Job.Args["mode"] = parts[1]
		}
		scnRenewRecipes(sub)
	default:
		panic("unknown leader " + name)
	}
	ctx.W = sub.W
}

func parsePlans(spec string, reqs []*abci.Request, seed int64) []replica.Plan {
	var plans []replica.Plan
	// indices of DeliverTx requests in blocks >= 2 (for mid-block kills)
	var txIdx []int
	h := int64(0)
	for i, r := range reqs {
		if bb := r.GetBeginBlock(); bb != nil {
			h = bb.Header.Height
		}
		if r.GetDeliverTx() != nil && h >= 3 {
			txIdx = append(txIdx, i)
		}
	}
	for _, p := range strings.Split(spec, ",") {
		p = strings.TrimSpace(p)
		switch {
		case p == "plain":
			plans = append(plans, replica.Plan{Name: "plain"})
		case strings.HasPrefix(p, "plain"):
			plans = append(plans, replica.Plan{Name: p})
		case strings.HasPrefix(p, "clock"):
			off, _ := strconv.ParseInt(p[5:], 10, 64)
			plans = append(plans, replica.Plan{Name: p, ClockOffset: off})
		case strings.HasPrefix(p, "noise"):
			plans = append(plans, replica.Plan{Name: p, NoiseSeed: seed + int64(len(plans)) + 17})
		case strings.HasPrefix(p, "restart"):
			k, _ := strconv.Atoi(p[7:])
			if k <= 0 {
				k = 1
			}
			plans = append(plans, replica.Plan{Name: p, RestartEvery: k})
		case strings.HasPrefix(p, "crash"):
			// kill after every n-th DeliverTx
			n, _ := strconv.Atoi(p[5:])
			if n <= 0 {
				n = 1
			}
			var at []int
			for i := 0; i < len(txIdx); i += n {
				at = append(at, txIdx[i])
			}
			if len(at) > 400 {
				at = at[:400]
			}
			plans = append(plans, replica.Plan{Name: p, CrashAt: at, RestartEvery: 0})
		case strings.HasPrefix(p, "racenoise"):
			plans = append(plans, replica.Plan{Name: p, NoiseSeed: seed + 91, Concurrent: true, Race: true})
		}
	}
	return plans
}

// scnReplica: run a leader scenario while recording its consensus stream, then feed the stream to followers.
func scnReplica(ctx *check.JobCtx) {
	dir, err := os.MkdirTemp("", "saomon-replica-")
	if err != nil {
		panic(err)
	}
	defer os.RemoveAll(dir)
	recordDir = dir
	leader := ctx.Arg("leader", "life:mixed")
	runLeader(ctx, leader)
	recordDir = ""
	w := ctx.W
	reqPath := filepath.Join(dir, "req.log")
	reqs, err := replica.LoadRequests(reqPath)
	if err != nil {
		panic(err)
	}
	lresp, err := replica.LoadResponses(filepath.Join(dir, "resp.log"))
	if err != nil {
		panic(err)
	}
	prop := ctx.Job.Prop
	plans := parsePlans(ctx.Arg("plans", "plain,clock3600,clock-86400,noise,restart7"), reqs, ctx.Job.Seed)
	exe, _ := os.Executable()
	raceExe := "/verif/bin/saomon.race"
	var mu sync.Mutex
	var wg sync.WaitGroup
	sem := make(chan struct{}, int(ctx.ArgInt("fpar", 4)))
	ntx := 0
	for _, r := range reqs {
		if r.GetDeliverTx() != nil {
			ntx++
		}
	}
	for _, pl := range plans {
		wg.Add(1)
		go func(pl replica.Plan) {
			defer wg.Done()
			sem <- struct{}{}
			defer func() { <-sem }()
			fr := replica.RunFollower(exe, raceExe, reqPath, dir, pl, reqs)
			mu.Lock()
			defer mu.Unlock()
			kind := strings.TrimRight(pl.Name, "-0123456789")
			if fr.Err != "" {
				ctx.Res.Inconclusive += fmt.Sprintf("follower %s: %s; ", pl.Name, fr.Err)
				return
			}
			w.Count("followers", 1)
			w.Count("follower_restarts", int64(fr.Restarts))
			w.Count("follower_midblock_kills", int64(fr.Crashes))
			w.Count("follower_noise_calls", int64(fr.NoiseCalls))
			if fr.Halt != "" {
				// the leader did not halt here (or it would have stopped the stream): a follower-only halt is a divergence
				w.Violate(prop, "follower-halted:"+kind, fmt.Sprintf("leader %s: follower %s halted: %s", leader, pl.Name, fr.Halt), nil)
				return
			}
			div, n := replica.Compare(reqs, lresp, fr.Responses)
			w.Count("responses_compared", int64(n))
			w.Case("%s:%s:leader=%s:restarts=%d,kills=%d,noise=%v", strings.ToLower(prop), kind, leader, bucket(fr.Restarts), bucket(fr.Crashes), fr.NoiseCalls > 0)
			var raceSites []string
			if pl.Race {
				var nr int
				nr, raceSites = scanRaceLogs(fr.RaceLog)
				w.Count("race_reports_total", int64(nr))
				for _, s := range raceSites {
					w.Violate(prop, "data-race:"+s, fmt.Sprintf("race detector: concurrent Simulate/Query vs consensus call race on %s", s), nil)
				}
				if div != nil && len(raceSites) == 0 {
					// cosmos-sdk 0.46 itself races between Simulate/Query and the consensus connection; a divergence of the
					// concurrent follower without a race inside this repository is not attributed to it
					w.Count("concurrent_follower_divergence_unattributed", 1)
					div = nil
				}
			}
			if div != nil {
				w.Violate(prop, fmt.Sprintf("replica-divergence:%s:%s", kind, div.Call), fmt.Sprintf("leader %s (seed %d): follower %s diverges at request %d (%s, height %d): leader {%s} follower {%s}", leader, ctx.Job.Seed, pl.Name, div.Index, div.Call, div.Height, div.Leader, div.Got), div)
			}
		}(pl)
	}
	wg.Wait()
	w.Count("stream_requests", int64(len(reqs)))
	w.Count("stream_txs", int64(ntx))
	w.Sample("leader %s: %d requests, %d txs, %d followers; %s", leader, len(reqs), ntx, len(plans), traceSummary(w))
}

// scanRaceLogs counts race reports and returns the access sites inside the repository.
func scanRaceLogs(prefix string) (int, []string) {
	matches, _ := filepath.Glob(prefix + "*")
	total := 0
	sites := map[string]bool{}
	for _, m := range matches {
		b, err := os.ReadFile(m)
		if err != nil {
			continue
		}
		blocks := strings.Split(string(b), "WARNING: DATA RACE")
		for _, blk := range blocks[1:] {
			total++
			// access sites: the first frame after "Write at"/"Read at"/"Previous write at"/"Previous read at"
			lines := strings.Split(blk, "\n")
			for i, ln := range lines {
				t := strings.TrimSpace(ln)
				if strings.HasPrefix(t, "Write at") || strings.HasPrefix(t, "Read at") || strings.HasPrefix(t, "Previous write at") || strings.HasPrefix(t, "Previous read at") {
					if i+2 < len(lines) {
						fn := strings.TrimSpace(lines[i+1])
						loc := strings.TrimSpace(lines[i+2])
						if strings.Contains(fn, "github.com/SaoNetwork/sao/") || strings.HasPrefix(loc, "/repo/") {
							if j := strings.LastIndex(loc, ":"); j > 0 {
								loc = loc[:j] // strip line number
							}
							if j := strings.Index(loc, " "); j > 0 {
								loc = loc[:j]
							}
							sites[strings.TrimPrefix(loc, "/repo/")] = true
						}
					}
				}
			}
		}
		os.Remove(m)
	}
	var out []string
	for s := range sites {
		out = append(out, s)
	}
	return total, out
}

var _ = world.Cid1
