package props

import (
	"fmt"
	"reflect"

	"saoverif/mon"
	"saoverif/world"

	modeltypes "github.com/SaoNetwork/sao/x/model/types"
	saotypes "github.com/SaoNetwork/sao/x/sao/types"
	sdk "github.com/cosmos/cosmos-sdk/types"
)

// C05: full refund and clean rollback when storage never started.
type C05 struct {
	open   map[uint64]*c05Order
	ended  int64
	checks int64
}

type c05Order struct {
	id       uint64
	dataId   string
	payer    string
	charged  sdk.Int
	preMeta  *modeltypes.Metadata
	shards   map[uint64]bool
	dirty    bool // the model was legitimately touched by another request in between
	reassign int
	op       uint32
}

func NewC05() *C05 { return &C05{open: map[uint64]*c05Order{}} }

func (m *C05) ID() string { return "C05" }
func (m *C05) Done(w *world.World) {
	w.Count("c05.orders_ended_before_start", m.ended)
	w.Count("c05.checks", m.checks)
}

func (m *C05) Tx(w *world.World, e *world.TxEvent) {
	if e.Pre == nil || e.Post == nil {
		return
	}
	if e.OK {
		switch msg := e.Msg.(type) {
		case *saotypes.MsgStore:
			if id, ok := world.NewOrderID(e); ok {
				o := &c05Order{id: id, dataId: msg.Proposal.DataId, charged: sdk.ZeroInt(), shards: map[uint64]bool{}, op: msg.Proposal.Operation}
				for _, t := range e.Transfers {
					if t.To == mon.AddrOrder {
						o.payer = t.From
						o.charged = o.charged.Add(t.Amount)
					}
				}
				if md, ok := e.Pre.Metas[o.dataId]; ok {
					c := md
					o.preMeta = &c
				}
				m.open[id] = o
			}
		case *saotypes.MsgComplete:
			if po, ok := e.Post.Orders[msg.OrderId]; ok {
				for _, o := range m.open {
					if o.dataId == po.DataId && o.id != msg.OrderId {
						o.dirty = true
					}
				}
			}
			// an order with a completed shard is no longer "never started"
			delete(m.open, msg.OrderId)
		case *saotypes.MsgTerminate:
			for _, o := range m.open {
				if o.dataId == msg.Proposal.DataId {
					o.dirty = true
				}
			}
		case *saotypes.MsgRenew:
			for _, d := range msg.Proposal.Data {
				for _, o := range m.open {
					if o.dataId == d {
						o.dirty = true
					}
				}
			}
		}
	}
	m.track(e.Post)
	m.detect(w, e.Pre, e.Post, e.Transfers, "tx "+e.Kind, e.Kind == "cancel")
}

func (m *C05) track(s *mon.State) {
	for id, o := range m.open {
		if so, ok := s.Orders[id]; ok {
			n := 0
			for _, sid := range so.Shards {
				if !o.shards[sid] {
					o.shards[sid] = true
					n++
				}
			}
			if n > 0 && len(o.shards) > n {
				o.reassign++
			}
		}
	}
}

func (m *C05) Block(w *world.World, e *world.BlockEvent) {
	m.detect(w, e.PreEnd, e.Post, e.EndTransfers, "end block", false)
	m.track(e.Post)
}

func (m *C05) detect(w *world.World, pre, post *mon.State, trs []mon.Transfer, where string, exclusive bool) {
	for id, o := range m.open {
		po, was := pre.Orders[id]
		if !was {
			continue
		}
		if _, still := post.Orders[id]; still {
			continue
		}
		if po.Status == OrderCompleted {
			delete(m.open, id)
			continue
		}
		// the order ended without any completed shard
		delete(m.open, id)
		m.ended++
		w.Case("c05:%s:existing-model=%v,reassigned=%d,op=%d,status=%d", whereKind(where), o.preMeta != nil, minInt(o.reassign, 3), o.op, po.Status)
		// (a) full refund to the payer
		refund := sdk.ZeroInt()
		for _, t := range trs {
			if t.From == mon.AddrOrder && t.To == o.payer {
				refund = refund.Add(t.Amount)
			}
		}
		m.checks++
		if exclusive || countRefunds(trs) == 1 {
			if !refund.Equal(o.charged) {
				w.Violate("C05", "refund-differs-from-charge:"+whereKind(where), fmt.Sprintf("%s: order %d (data %s) ended before any shard was stored; payer %s was charged %s and refunded %s", where, id, o.dataId, shortAddr(o.payer), o.charged, refund), nil)
			}
		} else if refund.LT(o.charged) {
			w.Violate("C05", "refund-differs-from-charge:"+whereKind(where), fmt.Sprintf("%s: order %d: payer %s was charged %s but only %s went back to it in this block", where, id, shortAddr(o.payer), o.charged, refund), nil)
		}
		// (b) shards gone
		for sid := range o.shards {
			m.checks++
			if sh, ok := post.Shards[sid]; ok {
				w.Violate("C05", "shard-remains-after-order-ended:"+whereKind(where), fmt.Sprintf("%s: order %d is gone but its shard %d (status %d, provider %s) still exists", where, id, sid, sh.Status, shortAddr(sh.Sp)), nil)
			}
		}
		// (c) provider rows untouched by a cancel transaction
		if exclusive {
			for p, a := range pre.Pledges {
				b := post.Pledges[p]
				m.checks++
				if a.UsedStorage != b.UsedStorage || !a.TotalShardPledged.IsEqual(b.TotalShardPledged) || !a.TotalStoragePledged.IsEqual(b.TotalStoragePledged) || !pre.BalOf(p).Equal(post.BalOf(p)) {
					w.Violate("C05", "provider-changed-by-cancel", fmt.Sprintf("%s: provider %s changed although the cancelled order never stored anything: %s -> %s", where, shortAddr(p), pledgeStr(pre, p), pledgeStr(post, p)), nil)
				}
			}
			for p, a := range pre.Workers {
				b := post.Workers[p]
				if a.Storage != b.Storage || !a.IncomePerSecond.Amount.Equal(b.IncomePerSecond.Amount) {
					w.Violate("C05", "provider-changed-by-cancel", fmt.Sprintf("%s: market account of %s changed by a cancel", where, shortAddr(p)), nil)
				}
			}
		}
		// (d) the model returns to its previous committed version, or disappears
		md, has := post.Metas[o.dataId]
		m.checks++
		if o.preMeta == nil && o.dirty {
			// the never-committed model was terminated by its owner before the order ended: nothing to compare
		} else if o.preMeta == nil {
			if has {
				w.Violate("C05", "new-model-remains-after-cancel", fmt.Sprintf("%s: order %d created data model %s which still exists after the order ended (status %d, commits %v)", where, id, o.dataId, md.Status, md.Commits), nil)
			}
			for k, d := range post.Models {
				if d == o.dataId {
					w.Violate("C05", "alias-remains-after-cancel", fmt.Sprintf("%s: alias %q still points at %s", where, k, o.dataId), nil)
				}
			}
			if !has {
				for hh, list := range post.ExpData {
					for _, d := range list {
						if d == o.dataId {
							w.Violate("C05", "expiry-schedule-residue-after-cancel", fmt.Sprintf("%s: data model %s ceased to exist with its cancelled order %d but is still listed in the data-expiry schedule at height %d", where, o.dataId, id, hh), map[string]interface{}{"schedule_entry": list, "order_before": fmt.Sprintf("%+v", po)})
						}
					}
				}
			}
		} else if !o.dirty && !c05VersionAlive(post, o.preMeta.Orders) {
			// the committed version's paid term ran out while the update was in flight: nothing to return to
			w.Case("c05:committed-version-expired-meanwhile")
		} else if !o.dirty {
			if !has {
				w.Violate("C05", "existing-model-lost-by-cancel", fmt.Sprintf("%s: update order %d ended and data model %s disappeared", where, id, o.dataId), nil)
			} else {
				pm := o.preMeta
				if md.Commit != pm.Commit || !reflect.DeepEqual(md.Commits, pm.Commits) || !reflect.DeepEqual(md.Orders, pm.Orders) || md.OrderId != pm.OrderId || md.Status != pm.Status || md.Cid != pm.Cid || md.Duration != pm.Duration || md.Owner != pm.Owner {
					w.Violate("C05", "model-not-rolled-back", fmt.Sprintf("%s: update order %d ended before storage started but data model %s did not return to its committed version: before {commit %s commits %v orders %v orderId %d status %d duration %d} after {commit %s commits %v orders %v orderId %d status %d duration %d}", where, id, o.dataId,
						pm.Commit, pm.Commits, pm.Orders, pm.OrderId, pm.Status, pm.Duration, md.Commit, md.Commits, md.Orders, md.OrderId, md.Status, md.Duration), nil)
				}
				end := md.CreatedAt + md.Duration
				for hh, list := range post.ExpData {
					for _, d := range list {
						if d == o.dataId && hh != end {
							w.Violate("C05", "expiry-schedule-residue-after-rollback", fmt.Sprintf("%s: data model %s is scheduled at height %d besides its end %d", where, o.dataId, hh, end), nil)
						}
					}
				}
			}
		}
	}
}

func countRefunds(trs []mon.Transfer) int {
	n := 0
	for _, t := range trs {
		if t.From == mon.AddrOrder && mon.ModuleAddrs[t.To] == "" {
			n++
		}
	}
	return n
}

func whereKind(where string) string {
	if len(where) >= 2 && where[:2] == "tx" {
		return "tx"
	}
	return "endblock"
}

func minInt(a, b int) int {
	if a < b {
		return a
	}
	return b
}

func c05VersionAlive(s *mon.State, orders []uint64) bool {
	for _, id := range orders {
		if o, ok := s.Orders[id]; ok {
			for _, sid := range o.Shards {
				if sh, ok := s.Shards[sid]; ok && sh.Status == ShardCompleted {
					return true
				}
			}
		}
	}
	return false
}
