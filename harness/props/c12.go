package props

import (
	"fmt"
	nodetypes "github.com/SaoNetwork/sao/x/node/types"
	sdk "github.com/cosmos/cosmos-sdk/types"
	"reflect"

	"saoverif/actors"
	"saoverif/chain"
	"saoverif/check"
	"saoverif/mon"
	"saoverif/world"
)

// C12: timeout progress, restated as bounded progress (no finite run decides "eventually"):
//
//	P1  while an order that was handed to providers is not fully stored, a future timeout
//	    examination is scheduled for it at every block boundary;
//	P2  no later than the end of its own lifetime (created + duration) the order is resolved:
//	    fully stored, cancelled (C05 decides the refund), or reduced to the replicas actually
//	    stored with the difference refunded; when no replacement provider exists at all it is
//	    resolved at the first examination after ten intervals;
//	P3  once fully stored, an examination changes nothing about the order, its shards or any
//	    balance and schedules nothing further.
type C12 struct {
	track  map[uint64]*c12Order
	checks int64
}

type c12Order struct {
	id       uint64
	handed   int64
	timeout  uint64
	created  uint64
	duration uint64
	replica  int32
	full     bool
	fullAt   int64
	visits   int
	noRepl   bool // scenario knowledge: no replacement provider exists
}

func NewC12() *C12 { return &C12{track: map[uint64]*c12Order{}} }

func (m *C12) ID() string          { return "C12" }
func (m *C12) Done(w *world.World) { w.Count("c12.boundary_checks", m.checks) }

func completedCount(s *mon.State, oid uint64) (done, waiting int) {
	o, ok := s.Orders[oid]
	if !ok {
		return
	}
	for _, sid := range o.Shards {
		if sh, ok := s.Shards[sid]; ok {
			switch sh.Status {
			case ShardCompleted:
				done++
			case ShardWaiting:
				waiting++
			}
		}
	}
	return
}

func scheduledAfter(s *mon.State, oid uint64, h uint64) bool {
	for th, l := range s.Timeouts {
		if th > h && containsU64(l, oid) {
			return true
		}
	}
	return false
}

func (m *C12) observe(s *mon.State, h int64) {
	for id, o := range s.Orders {
		if o.Operation == 3 {
			continue
		}
		if _, ok := m.track[id]; ok {
			continue
		}
		if o.Status == OrderDataReady || (o.Status == OrderCompleted && len(o.Shards) > 0) {
			m.track[id] = &c12Order{id: id, handed: h, timeout: o.Timeout, created: o.CreatedAt, duration: o.Duration, replica: o.Replica}
		}
	}
}

func (m *C12) Tx(w *world.World, e *world.TxEvent) {
	if e.Post != nil {
		m.observe(e.Post, e.Height)
	}
}

func (m *C12) Block(w *world.World, e *world.BlockEvent) {
	h := uint64(e.Height)
	m.observe(e.Post, e.Height)
	for id, t := range m.track {
		pre, hadPre := e.PreEnd.Orders[id]
		post, has := e.Post.Orders[id]
		examined := containsU64(e.PreEnd.Timeouts[h], id)
		if examined {
			t.visits++
		}
		if !has {
			// resolved by removal: cancelled / terminated / expired
			if hadPre {
				kind := "removed"
				for _, mk := range e.EndMarks {
					if mk.Type == "cancel-order" && mk.Attrs["order-id"] == fmt.Sprint(id) {
						kind = "timeout-cancel"
					}
				}
				w.Case("c12:resolved:%s:after-visits=%d,full=%v", kind, minInt(t.visits, 12), t.full)
			}
			delete(m.track, id)
			continue
		}
		done, waiting := completedCount(e.Post, id)
		m.checks++
		if hadPre && post.Replica < pre.Replica {
			w.Case("c12:resolved:replica-reduced:%d->%d:after-visits=%d", pre.Replica, post.Replica, minInt(t.visits, 12))
			t.replica = post.Replica
		}
		nowFull := waiting == 0 && done >= int(post.Replica) && post.Status == OrderCompleted
		if nowFull && !t.full {
			t.full, t.fullAt = true, e.Height
			w.Case("c12:resolved:fully-stored:after-visits=%d", minInt(t.visits, 12))
		}
		if !t.full {
			// P1
			if !scheduledAfter(e.Post, id, h) {
				w.Violate("C12", "unfinished-order-without-scheduled-examination", fmt.Sprintf("height %d: order %d (created %d, timeout %d, duration %d, %d/%d stored, %d waiting) is unresolved but no future timeout examination lists it", h, id, t.created, t.timeout, t.duration, done, post.Replica, waiting), nil)
			}
			// P2
			// the first examination comes one interval after the hand-over (a gateway may call Ready late),
			// later ones every interval until the last one before created+duration
			bound := t.created + t.duration
			if hb := uint64(t.handed) + t.timeout; hb > bound {
				bound = hb
			}
			if h > bound {
				w.Violate("C12", "order-unresolved-beyond-its-lifetime", fmt.Sprintf("height %d: order %d (created %d, duration %d, timeout %d) is still unresolved: %d/%d stored, %d waiting, status %d", h, id, t.created, t.duration, t.timeout, done, post.Replica, waiting, post.Status), nil)
				delete(m.track, id)
				continue
			}
			if t.noRepl && h > t.created+11*t.timeout+1 && h > uint64(t.handed)+11*t.timeout+1 {
				w.Violate("C12", "no-replacement-order-not-given-up-after-ten-intervals", fmt.Sprintf("height %d: order %d (created %d, timeout %d) has had no replacement provider for more than eleven intervals and is still unresolved", h, id, t.created, t.timeout), nil)
				delete(m.track, id)
				continue
			}
		} else if examined && hadPre && t.fullAt < e.Height {
			// P3: an examination of a fully stored order changes nothing
			expiring := false
			for _, sid := range pre.Shards {
				if containsU64(e.PreEnd.ExpShards[h], sid) {
					expiring = true
				}
			}
			if !expiring {
				// the one visit that was already queued when the order completed may prune the records of shards
				// that never completed (timed-out assignments); nothing else may change
				a, b := pre, post
				var keptA []uint64
				for _, sid := range a.Shards {
					// stored shards and hand-overs in progress (migrating) are not "unfinished parts" of the order
					if sh, ok := e.PreEnd.Shards[sid]; ok && (sh.Status == ShardCompleted || sh.Status == ShardMigrating) {
						keptA = append(keptA, sid)
					}
				}
				var keptB []uint64
				for _, sid := range b.Shards {
					if sh, ok := e.Post.Shards[sid]; ok && (sh.Status == ShardCompleted || sh.Status == ShardMigrating) {
						keptB = append(keptB, sid)
					}
				}
				pruned := len(a.Shards) != len(b.Shards)
				a.Shards, b.Shards = nil, nil
				if !reflect.DeepEqual(a, b) || !reflect.DeepEqual(keptA, keptB) {
					w.Violate("C12", "examination-changed-fully-stored-order", fmt.Sprintf("height %d: the timeout examination changed fully stored order %d: %+v -> %+v", h, id, pre, post), nil)
				}
				for _, sid := range keptA {
					if !reflect.DeepEqual(e.PreEnd.Shards[sid], e.Post.Shards[sid]) {
						w.Violate("C12", "examination-changed-shard-of-fully-stored-order", fmt.Sprintf("height %d: the timeout examination changed stored shard %d of fully stored order %d", h, sid, id), nil)
					}
				}
				if pruned {
					w.Case("c12:examined-after-full-storage:pruned-dead-shard-records")
				}
				if scheduledAfter(e.Post, id, h) {
					w.Violate("C12", "fully-stored-order-rescheduled", fmt.Sprintf("height %d: fully stored order %d was scheduled for another timeout examination", h, id), nil)
				}
				w.Case("c12:examined-after-full-storage:no-effect")
			}
		}
	}
}

// ---------------------------------------------------------------- scenario

// scnTimeouts enumerates silence patterns: every assigned provider independently completes or stays
// silent at each attempt; the population fixes how many replacement providers exist.
func scnTimeouts(ctx *check.JobCtx) {
	c12 := NewC12()
	mons := monitorsFor(ctx.Job.Prop)
	for i, mn := range mons {
		if _, ok := mn.(*C12); ok {
			mons[i] = c12
		}
	}
	w := newLifeWorld(ctx, mons...)
	replica := int(ctx.ArgInt("replica", 2))
	extra := int(ctx.ArgInt("extra", 1)) // replacement providers beyond the replica count
	attempts := int(ctx.ArgInt("attempts", 3))
	tdClass := ctx.Arg("td", "small")
	viaReady := ctx.Arg("ready", "") == "1"
	twin := ctx.Arg("twin", "") == "1"
	var twinOid uint64
	gwA := w.Acct("gw0")
	var spA []*actors.Account
	for i := 0; i < replica+extra; i++ {
		spA = append(spA, w.Acct(fmt.Sprintf("sp%d", i)))
	}
	funded := append([]*actors.Account{gwA, w.Acct("pay-owner"), w.Acct("pay-sowner")}, spA...)
	np := chain.DefaultNodeParams()
	np.OfflineTriggerHeight = 1_000_000
	withSuper := ctx.Arg("super", "") == "1"
	var mut func(*chain.GenesisSpec)
	if withSuper {
		// the first provider holds the super role from genesis on (first pick of every order, also of every retry)
		mut = func(s *chain.GenesisSpec) {
			a := spA[0].Addr.String()
			s.Nodes = append(s.Nodes, nodetypes.Node{Creator: a, Reputation: 10000, Status: world.StatusAll, Role: 1})
			s.Pledges = append(s.Pledges, nodetypes.Pledge{Creator: a, TotalStoragePledged: sdk.NewInt64Coin(chain.Denom, 1000), TotalShardPledged: sdk.NewInt64Coin(chain.Denom, 0),
				Reward: sdk.NewInt64DecCoin(chain.Denom, 0), RewardDebt: sdk.NewInt64DecCoin(chain.Denom, 0), TotalStorage: 1_000_000_000})
		}
	}
	gen := w.StandardGenesis(np, funded, 10_000_000_000, mut)
	if err := w.Init(gen, 1); err != nil {
		w.Finish()
		return
	}
	gw := w.SetupProvider(gwA, 0)
	w.Providers = nil
	for i, a := range spA {
		if withSuper && i == 0 {
			w.Providers = append(w.Providers, &world.Provider{Acct: a})
			continue
		}
		w.SetupProvider(a, 1_000_000_000)
	}
	// SetupProvider appended the gateway too: keep storage providers only
	var sps []*world.Provider
	for _, p := range w.Providers {
		if p.Acct != gwA {
			sps = append(sps, p)
		}
	}
	w.Providers = sps
	owner := w.NewKeyOwner("owner")
	sowner := w.NewSidOwner("sowner")
	w.EndBlock()

	duration := uint64(3600)
	var timeout int32
	switch tdClass {
	case "small":
		timeout = 40
	case "half":
		timeout = 1800
	case "over":
		timeout = 2000
	case "full":
		timeout = 3600
	}
	// pattern bits: bit (attempt*replica + slot) set => the provider assigned to that slot at that attempt completes
	nbits := attempts * replica
	npat := 1 << nbits
	maxPat := int(ctx.ArgInt("maxpat", int64(npat)))
	type live struct {
		order   uint64
		pattern int
		seen    map[uint64]int // shard id -> decided attempt
		attempt int
		lastCnt int
	}
	var orders []*live
	decide := func(w *world.World) {
		for _, lo := range orders {
			o, ok := w.Cur.Orders[lo.order]
			if !ok {
				continue
			}
			// a new batch of shards appeared => next attempt
			if len(o.Shards) != lo.lastCnt {
				if lo.lastCnt != 0 {
					lo.attempt++
				}
				lo.lastCnt = len(o.Shards)
			}
			slot := 0
			for _, sid := range o.Shards {
				sh, ok := w.Cur.Shards[sid]
				if !ok || sh.Status != ShardWaiting {
					continue
				}
				if _, done := lo.seen[sid]; done {
					slot++
					continue
				}
				lo.seen[sid] = lo.attempt
				at := lo.attempt
				if at >= attempts {
					at = attempts - 1
				}
				bit := at*replica + (slot % replica)
				slot++
				if lo.pattern&(1<<bit) != 0 {
					if p := w.ProviderByAddr(sh.Sp); p != nil {
						w.Complete(p.Acct, nil, lo.order, sh.Size_)
					}
				}
			}
		}
	}
	step := int64(3)
	for pat := 0; pat < npat && pat < maxPat && !w.Halted(); pat++ {
		did := w.NewDataId()
		req := world.StoreReq{Owner: owner.Id, Gateway: gw, DataId: did, CommitId: did, Duration: duration, Replica: int32(replica), Timeout: timeout, Size: 1000}
		var oid uint64
		if viaReady {
			req.Owner = sowner.Id
			req.Relayer = sowner.Pay
			req.MsgProv = sowner.Pay.Addr.String()
			_, oid = w.Store(req)
			if oid != 0 {
				w.EndBlock()
				// the gateway may pick the order up late, even later than one timeout interval after its creation
				switch ctx.Arg("readydelay", "alternate") {
				case "late":
					w.Advance(int64(timeout) + int64(1+w.Rng.Intn(20)))
				case "alternate":
					if pat%2 == 1 {
						w.Advance(int64(timeout) + int64(1+w.Rng.Intn(20)))
					} else if pat%4 == 2 {
						w.Advance(int64(timeout) - 1)
					}
				}
				w.Ready(gw.Acct, oid, gw.Acct.Addr.String())
			}
		} else {
			// twin: a second order of the same gateway is created in the same block with the same timeout (both
			// are due for examination at the same height) and cancelled a block later, before or after in tx order
			mkTwin := func() {
				d2 := w.NewDataId()
				r2 := req
				r2.DataId, r2.CommitId = d2, d2
				_, twinOid = w.Store(r2)
			}
			twinOid = 0
			if twin && pat%4 == 0 {
				mkTwin()
			}
			_, oid = w.Store(req)
			if twin && pat%4 == 2 {
				mkTwin()
			}
		}
		if oid == 0 {
			continue
		}
		lo := &live{order: oid, pattern: pat, seen: map[uint64]int{}}
		orders = append(orders, lo)
		if t, ok := c12.track[oid]; ok {
			t.noRepl = extra == 0
		}
		w.Case("c12:pattern:replica=%d,extra=%d,td=%s,ready=%v,late=%v,super=%v,bits=%0*b", replica, extra, tdClass, viaReady, viaReady && pat%2 == 1, withSuper, nbits, pat)
		decide(w)
		w.EndBlock()
		if twinOid != 0 {
			e := w.Cancel(gw.Acct, twinOid, gw.Acct.Addr.String())
			w.Case("c12:twin-cancelled:ok=%v,first=%v", e.OK, pat%4 == 0)
		}
		for k := int64(0); k < step; k++ {
			decide(w)
			w.EndBlock()
		}
	}
	// run until every tracked order must be resolved: the longest lifetime
	end := w.C.Height + int64(duration) + int64(timeout) + 10
	for w.C.Height < end && !w.Halted() {
		decide(w)
		w.EndBlock()
		if len(c12.track) == 0 && len(w.Cur.Timeouts) == 0 {
			break
		}
	}
	for _, t := range c12.track {
		if t.noRepl {
			w.Count("c12.norepl_tracked", 1)
		}
	}
	w.Sample("timeout patterns replica=%d extra=%d td=%s ready=%v: %d orders; %s", replica, extra, tdClass, viaReady, len(orders), traceSummary(w))
	w.Finish()
}
