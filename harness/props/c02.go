package props

import (
	"crypto/sha256"
	"fmt"
	"math/big"
	"sort"
	"strings"

	"saoverif/actors"
	"saoverif/chain"
	"saoverif/check"
	"saoverif/world"

	didtypes "github.com/SaoNetwork/sao/x/did/types"
	nodetypes "github.com/SaoNetwork/sao/x/node/types"
	saotypes "github.com/SaoNetwork/sao/x/sao/types"
	sdk "github.com/cosmos/cosmos-sdk/types"
	tmproto "github.com/tendermint/tendermint/proto/tendermint/types"
)

// haltKey turns a halt into a finding key that is specific to the failing call site.
func haltKey(h *chain.Halt) string {
	msg := h.Msg
	site := ""
	// first repository frame of the stack
	for _, ln := range strings.Split(h.Stack, "\n") {
		t := strings.TrimSpace(ln)
		if strings.HasPrefix(t, "/repo/") {
			site = strings.TrimPrefix(t, "/repo/")
			if i := strings.Index(site, ":"); i > 0 {
				site = site[:i]
			}
			break
		}
	}
	if len(msg) > 60 {
		msg = msg[:60]
	}
	msg = strings.Map(func(r rune) rune {
		if r >= '0' && r <= '9' {
			return -1
		}
		return r
	}, msg)
	return fmt.Sprintf("%s:%s:%s:%s", h.Kind, h.Call, site, strings.TrimSpace(msg))
}

// c02Post turns every halt reported by any job into a C02 violation.
func c02Post(tier string, seed int64, results []*check.Result, ev *check.Evidence) []world.Violation {
	var out []world.Violation
	for _, r := range results {
		if r.Halt != nil {
			out = append(out, world.Violation{Prop: "C02", Key: haltKey(r.Halt), Height: r.Halt.Height,
				Msg:    fmt.Sprintf("scenario %s seed %d args %v: %s", r.Job.Scenario, r.Job.Seed, r.Job.Args, r.Halt.Error()),
				Detail: map[string]interface{}{"stack": firstN(r.Halt.Stack, 3000), "job": r.Job}})
		}
	}
	return out
}

// ---------------------------------------------------------------- populations and direct selection calls

type popNode struct {
	acct *actors.Account
	node nodetypes.Node
	pl   nodetypes.Pledge
}

// buildPopulation generates a node population with diverse status bits, reputations, roles, capacities and last-alive heights.
func buildPopulation(w *world.World, n int, shardSize int64, supers int) []popNode {
	r := w.Rng
	var out []popNode
	for i := 0; i < n; i++ {
		a := w.Acct(fmt.Sprintf("pn%03d", i))
		st := uint32(world.StatusAll)
		switch r.Intn(8) {
		case 0:
			st = 0
		case 1:
			st = 1 | 4 // not accepting orders
		case 2:
			st = 2 | 4 | 8 // offline
		}
		rep := []float32{10000, 10000, 10000, 8000.5, 8000, 7999.5, 0, 20000}[r.Intn(8)]
		capTotal := []int64{shardSize - 1, shardSize, shardSize + 1, 3 * shardSize, 100 * shardSize, 100 * shardSize}[r.Intn(6)]
		used := []int64{0, 0, capTotal / 2, capTotal - shardSize + 1, capTotal}[r.Intn(5)]
		if used < 0 || used > capTotal {
			used = 0
		}
		role := uint32(0)
		if i < supers {
			role = 1
			if r.Intn(3) > 0 {
				st, rep = world.StatusAll, 10000
				capTotal, used = 100*shardSize, 0
			}
		}
		nd := nodetypes.Node{Creator: a.Addr.String(), Peer: "", Reputation: rep, Status: st, LastAliveHeight: int64(r.Intn(3)), Role: role}
		amt := sdk.NewDecWithPrec(1, 6).MulInt64(capTotal).Ceil().TruncateInt()
		pl := nodetypes.Pledge{Creator: a.Addr.String(), TotalStoragePledged: sdk.NewCoin(chain.Denom, amt), TotalShardPledged: coin(0),
			Reward: sdk.NewInt64DecCoin(chain.Denom, 0), RewardDebt: sdk.NewInt64DecCoin(chain.Denom, 0), TotalStorage: capTotal, UsedStorage: 0}
		_ = used // used capacity must equal live shards (C14): capacity pressure comes from small totals instead
		out = append(out, popNode{a, nd, pl})
	}
	return out
}

func eligibleFor(n nodetypes.Node, pl nodetypes.Pledge, size int64) bool {
	return n.Status&statusEligible == statusEligible && n.Reputation >= reputationFloor && pl.TotalStorage-pl.UsedStorage >= size
}

// scnSelection: populations in genesis, orders placed through the ABCI, and direct calls of the selection functions.
func scnSelection(ctx *check.JobCtx) {
	w := newLifeWorld(ctx, monitorsFor(ctx.Job.Prop)...)
	r := w.Rng
	n := int(ctx.ArgInt("pop", int64(3+r.Intn(40))))
	if ctx.Arg("bigpop", "") == "1" {
		n = 60 + r.Intn(100)
	}
	if ctx.Arg("hugepop", "") == "1" {
		// ~100 eligible providers: draws of more indices than a 32-byte seed has decimal digits (the seed runs out)
		n = 240 + r.Intn(60)
	}
	size := int64([]int64{1000, 1_000_000, 5_000_000}[r.Intn(3)])
	supers := r.Intn(4)
	tight := ctx.Arg("tightsuper", "") == "1"
	if tight {
		n, supers = 4, 1
	}
	pop := buildPopulation(w, n, size, supers)
	if tight {
		// one super node with room for exactly ONE shard, three ordinary providers with plenty: the super node
		// takes the first shard of an order and has no free capacity when the other shard is re-assigned
		for i := range pop {
			pop[i].node.Status, pop[i].node.Reputation = world.StatusAll, 10000
			capTotal := 100 * size
			if i == 0 {
				capTotal = size
			}
			pop[i].pl.TotalStorage = capTotal
			pop[i].pl.TotalStoragePledged = sdk.NewCoin(chain.Denom, sdk.NewDecWithPrec(1, 6).MulInt64(capTotal).Ceil().TruncateInt())
		}
	}
	gwA := w.Acct("gw0")
	funded := []*actors.Account{gwA, w.Acct("pay-owner")}
	for _, p := range pop {
		funded = append(funded, p.acct)
	}
	np := chain.DefaultNodeParams()
	np.OfflineTriggerHeight = 1_000_000
	gen := w.StandardGenesis(np, funded, 10_000_000_000, func(s *chain.GenesisSpec) {
		for _, p := range pop {
			s.Nodes = append(s.Nodes, p.node)
			s.Pledges = append(s.Pledges, p.pl)
		}
	})
	if err := w.Init(gen, 1); err != nil {
		w.Finish()
		return
	}
	gw := w.SetupProvider(gwA, 0)
	w.Providers = nil
	for _, p := range pop {
		w.Providers = append(w.Providers, &world.Provider{Acct: p.acct})
	}
	owner := w.NewKeyOwner("owner")
	w.EndBlock()
	w.Advance(2)

	// ---- ABCI level: stores with replica 1..N, silent providers (timeouts re-assign), migrations
	nOrders := int(ctx.ArgInt("orders", 12))
	for i := 0; i < nOrders && !w.Halted(); i++ {
		elig := 0
		for _, nd := range w.Cur.Nodes {
			if pl, ok := w.Cur.Pledges[nd.Creator]; ok && eligibleFor(nd, pl, size) {
				elig++
			}
		}
		replica := int32(1 + r.Intn(4))
		pick := r.Intn(5)
		if tight {
			pick = 9
			replica = 2
		}
		if ctx.Arg("hugepop", "") == "1" && i%2 == 0 {
			pick = 2 // nearly the whole eligible population
		}
		switch pick {
		case 0:
			replica = int32(elig) // exactly the eligible population
		case 1:
			replica = int32(elig + 1)
		case 2:
			if elig > 2 {
				replica = int32(elig - 1 - r.Intn(2))
			}
		}
		did := w.NewDataId()
		_, oid := w.Store(world.StoreReq{Owner: owner.Id, Gateway: gw, DataId: did, CommitId: did, Duration: 3600, Replica: replica, Timeout: int32(20 + r.Intn(60)), Size: uint64(size)})
		if oid != 0 {
			// some providers complete, the rest stay silent: the end-blocker re-assigns
			o := w.Cur.Orders[oid]
			for _, sid := range o.Shards {
				sh := w.Cur.Shards[sid]
				complete := r.Intn(2) == 0
				if tight {
					complete = sh.Sp == pop[0].acct.Addr.String()
				}
				if complete {
					if p := w.ProviderByAddr(sh.Sp); p != nil {
						w.Complete(p.Acct, nil, oid, sh.Size_)
					}
				}
			}
			w.EndBlock()
			w.Advance(int64(30 + r.Intn(150)))
			if r.Intn(2) == 0 {
				// a holder migrates its shard away
				if o2, ok := w.Cur.Orders[oid]; ok {
					for _, sid := range o2.Shards {
						if sh, ok := w.Cur.Shards[sid]; ok && sh.Status == ShardCompleted {
							if p := w.ProviderByAddr(sh.Sp); p != nil {
								w.Migrate(p.Acct, did)
								break
							}
						}
					}
				}
			}
			w.CompleteAll(oid)
		}
		// status changes between orders: resets (demote themselves, go offline, come back)
		for k := 0; k < 2; k++ {
			p := pop[r.Intn(len(pop))]
			w.ResetNode(p.acct, []uint32{world.StatusAll, 0, 1 | 4, 1 | 4 | 8}[r.Intn(4)], nil, "")
		}
		w.EndBlock()
	}

	// ---- direct level: the selection functions on cache-branched contexts with generated seeds
	nDirect := int(ctx.ArgInt("direct", 300))
	k := w.C.App.NodeKeeper
	for i := 0; i < nDirect && !w.Halted(); i++ {
		var seed []byte
		switch r.Intn(5) {
		case 0:
			seed = nil
		case 1:
			seed = []byte{byte(r.Intn(256))}
		case 2:
			seed = []byte{0, 0, 0, byte(r.Intn(4))}
		default:
			h := sha256.Sum256([]byte(fmt.Sprintf("%d/%d", ctx.Job.Seed, i)))
			seed = h[:]
		}
		count := 1 + r.Intn(6)
		if r.Intn(4) == 0 {
			// counts <= 0 only reach the selection inside DeliverTx (replica field), where baseapp turns a panic
			// into an error; the end-blocker and migrate always ask for at least one
			count = 1 + r.Intn(len(pop)+2)
		}
		var ignore []string
		for j := 0; j < r.Intn(4); j++ {
			ignore = append(ignore, pop[r.Intn(len(pop))].acct.Addr.String())
		}
		sz := size
		base := w.C.Ctx()
		cctx, _ := base.CacheContext()
		hdr := cctx.BlockHeader()
		hdr.AppHash = seed
		cctx = cctx.WithBlockHeader(tmproto.Header(hdr))
		if r.Intn(6) == 0 {
			k.SetNodeRound(cctx, uint8(r.Intn(8))) // a cursor left over from a larger super-node population
		}
		var got []nodetypes.Node
		halt := w.C.Guard("RandomSP", func() { got = k.RandomSP(cctx, count, ignore, sz) })
		w.Count("evaluations", 1)
		if halt != nil {
			w.Halt = halt
			break
		}
		// oracle on the result
		seen := map[string]bool{}
		for _, g := range got {
			if seen[g.Creator] {
				w.Violate("C15", "direct:duplicate-provider", fmt.Sprintf("RandomSP(count=%d, seed %x) returned %s twice", count, seed, shortAddr(g.Creator)), nil)
			}
			seen[g.Creator] = true
			for _, ig := range ignore {
				if ig == g.Creator {
					w.Violate("C15", "direct:ignored-provider-selected", fmt.Sprintf("RandomSP returned %s which is on the ignore list", shortAddr(g.Creator)), nil)
				}
			}
			nd := w.Cur.Nodes[g.Creator]
			pl := w.Cur.Pledges[g.Creator]
			if !eligibleFor(nd, pl, sz) {
				w.Violate("C15", "direct:ineligible-provider-selected", fmt.Sprintf("RandomSP returned %s: status %d reputation %v free %d (size %d)", shortAddr(g.Creator), nd.Status, nd.Reputation, pl.TotalStorage-pl.UsedStorage, sz), nil)
			}
		}
		if len(got) > count {
			w.Violate("C15", "direct:more-than-requested", fmt.Sprintf("RandomSP(count=%d) returned %d providers", count, len(got)), nil)
		}
		w.Case("c15:direct:seedlen=%d,count=%d,got=%d,ignore=%d", len(seed), minInt(count, 8), minInt(len(got), 8), len(ignore))

		// RandomIndex on its own, with totals/counts near each other
		total := 1 + r.Intn(130)
		cnt := r.Intn(total + 2)
		if r.Intn(3) == 0 {
			cnt = total - 1 - r.Intn(3)
			if cnt < 0 {
				cnt = 0
			}
		}
		var idx []int
		sd := new(big.Int).SetBytes(seed)
		halt = w.C.Guard("RandomIndex", func() { idx = k.RandomIndex(sd, total, cnt) })
		w.Count("evaluations", 1)
		if halt != nil {
			w.Halt = halt
			w.Sample("RandomIndex(seed=%x, total=%d, count=%d) did not return", seed, total, cnt)
			break
		}
		if total > cnt {
			if len(idx) != cnt {
				w.Violate("C15", "direct:randomindex-count", fmt.Sprintf("RandomIndex(total=%d,count=%d) returned %d indices", total, cnt, len(idx)), nil)
			}
			sort.Ints(idx)
			for j, v := range idx {
				if v < 0 || v >= total || (j > 0 && idx[j-1] == v) {
					w.Violate("C15", "direct:randomindex-values", fmt.Sprintf("RandomIndex(total=%d,count=%d) returned %v", total, cnt, idx), nil)
					break
				}
			}
		}
	}
	w.Sample("selection: population %d (size %d, %d super), %s", n, size, supers, traceSummary(w))
	w.Finish()
}

// ---------------------------------------------------------------- hostile field values

func scnHostile(ctx *check.JobCtx) {
	w := newLifeWorld(ctx, monitorsFor(ctx.Job.Prop)...)
	a := setupAuthz(w)
	if w.Halted() {
		w.Finish()
		return
	}
	r := w.Rng
	sizes := []uint64{0, 1, 2, 1 << 31, 1 << 62, 1<<63 - 1, 1 << 63, ^uint64(0)}
	replicas := []int32{-1 << 31, -1, 0, 1, 2, 5, 6, 1000, 1<<31 - 1}
	durations := []uint64{0, 3599, 3600, 3601, 1 << 31, 1 << 62, 1<<63 - 1, ^uint64(0), 60 * 60 * 24 * 365 * 2, 60*60*24*365*2 + 1}
	timeouts := []int32{-1 << 31, -1, 0, 1, 1<<31 - 1, 1800, 3600}
	ids := []string{"", "x", strings.Repeat("a", 35), strings.Repeat("a", 36), strings.Repeat("a", 37), "|", "||", "a|b|c"}
	target := a.newModel(a.owner, 1)
	n := int(ctx.ArgInt("n", 150))
	for i := 0; i < n && !w.Halted(); i++ {
		switch r.Intn(9) {
		case 0, 1, 2:
			did := w.NewDataId()
			if r.Intn(3) == 0 {
				did = ids[r.Intn(len(ids))]
			}
			commit := did
			if r.Intn(3) == 0 {
				commit = ids[r.Intn(len(ids))]
			}
			req := world.StoreReq{Owner: a.owner.Id, Gateway: a.gw, DataId: did, CommitId: commit, Duration: durations[r.Intn(len(durations))],
				Replica: replicas[r.Intn(len(replicas))], Timeout: timeouts[r.Intn(len(timeouts))], Size: sizes[r.Intn(len(sizes))], Operation: uint32(r.Intn(4))}
			if r.Intn(4) == 0 {
				req.Cid = "not-a-cid"
			}
			_, oid := w.Store(req)
			if oid != 0 {
				if r.Intn(2) == 0 {
					w.CompleteAll(oid)
				}
			}
		case 3:
			w.Renew(a.owner.Id, nil, a.gw.Acct, "", durations[r.Intn(len(durations))], timeouts[r.Intn(len(timeouts))], nil, target, "nonexistent", target)
		case 4:
			sp := a.sps[r.Intn(len(a.sps))]
			w.Deliver("complete", sp.Acct, nil, saotypes.NewMsgComplete(sp.Acct.Addr.String(), uint64(r.Intn(40)), []string{world.Cid1, "", "zzz"}[r.Intn(3)], sizes[r.Intn(len(sizes))], sp.Acct.Addr.String()))
		case 5:
			sp := a.sps[r.Intn(len(a.sps))]
			if r.Intn(2) == 0 {
				w.AddVstorage(sp.Acct, sizes[r.Intn(len(sizes))])
			} else {
				w.RemoveVstorage(sp.Acct, sizes[r.Intn(len(sizes))])
			}
		case 6:
			sp := a.sps[r.Intn(len(a.sps))]
			m := &nodetypes.MsgReset{Creator: sp.Acct.Addr.String(), Peer: []string{"", "garbage", "/ip4/1.2.3.4/tcp/1,/ip4/bad"}[r.Intn(3)], Status: uint32(r.Uint32()), Validator: []string{"", "saovaloper1xxx", sdk.ValAddress(w.Acct("val0").Addr).String()}[r.Intn(3)]}
			w.Deliver("node-reset", sp.Acct, nil, m)
			w.ResetNode(sp.Acct, world.StatusAll, nil, "")
		case 7:
			w.Deliver("cancel", a.gw.Acct, nil, saotypes.NewMsgCancel(a.gw.Acct.Addr.String(), uint64(r.Intn(60)), []string{"", "garbage", a.gw.Acct.Addr.String()}[r.Intn(3)]))
			w.Deliver("migrate", a.sps[0].Acct, nil, saotypes.NewMsgMigrate(a.sps[0].Acct.Addr.String(), []string{target, "", "x"}, a.sps[0].Acct.Addr.String()))
		case 8:
			w.Advance(int64(1 + r.Intn(700)))
		}
		if r.Intn(3) == 0 && w.C.InBlock {
			w.EndBlock()
		}
	}
	// cross every scheduled height
	w.Advance(4000)
	w.Sample("hostile values: %s", traceSummary(w))
	w.Finish()
}

// ---------------------------------------------------------------- configuration sweep

func scnConfig(ctx *check.JobCtx) {
	i := int(ctx.ArgInt("config", 0))
	rewards := []string{"0", "1", "7", "1000", "399999999999999", "400000000000000", "400000000000001", "800000000000000", "100000000000000", "200000000000000"}
	baselines := []int64{0, 1, 100, 1_000_000, 1_000_000_000_000}
	apys := []string{"0", "0.2", "1", "100", "0.000000000000000001"}
	periods := []int64{11, 12, 100, 2000, 32000000}
	reward, _ := sdk.NewIntFromString(rewards[i%len(rewards)])
	p := DefaultLife()
	p.Providers = 3
	p.Ops = int(ctx.ArgInt("ops", 30))
	p.MaxHeight = 6000
	p.Weights["claim"] = 10
	p.Params = func(np *nodetypes.Params) {
		np.BlockReward = sdk.NewCoin(chain.Denom, reward)
		np.Baseline = sdk.NewInt64Coin(chain.Denom, baselines[(i/2)%len(baselines)])
		np.AnnualPercentageYield = apys[(i/3)%len(apys)]
		np.HalvingPeriod = periods[(i/5)%len(periods)]
		np.AdjustmentPeriod = periods[(i/7)%len(periods)]
		np.OfflineTriggerHeight = []int64{1, 50, 1800, 1_000_000}[(i/11)%4]
		np.VstorageThreshold = []int64{1, 10_000_000, 1 << 62}[(i/13)%3]
		np.ShareThreshold = []string{"0.01", "0.1", "1", "5"}[(i/17)%4]
	}
	w := newLifeWorld(ctx, monitorsFor(ctx.Job.Prop)...)
	w.BeginStates = true
	l := SetupLife(w, p)
	if !w.Halted() {
		l.Run()
	} else {
		w.Finish()
	}
	w.Case("c02:config:reward=%s,baseline=%d,apy=%s,halving=%d,adjust=%d", rewards[i%len(rewards)], baselines[(i/2)%len(baselines)], apys[(i/3)%len(apys)], periods[(i/5)%len(periods)], periods[(i/7)%len(periods)])
	w.Sample("config %d: reward=%s: %s", i, rewards[i%len(rewards)], traceSummary(w))
}

// C02 monitor: records what the liveness watchdogs actually covered.
type C02 struct{}

func (m *C02) ID() string { return "C02" }
func (m *C02) Tx(w *world.World, e *world.TxEvent) {
	oc := "ok"
	if !e.OK {
		oc = fmt.Sprintf("%s/%d", e.Res.Codespace, e.Res.Code)
	}
	w.Case("c02:tx:%s:%s", e.Kind, oc)
}
func (m *C02) Block(w *world.World, e *world.BlockEvent) {
	if len(e.EndMarks) > 0 || len(e.EndTransfers) > 0 || len(e.BeginTransfers) > 0 {
		kinds := map[string]bool{}
		for _, mk := range e.EndMarks {
			kinds[mk.Type] = true
		}
		ks := make([]string, 0, len(kinds))
		for k := range kinds {
			ks = append(ks, k)
		}
		sort.Strings(ks)
		w.Case("c02:block:mint=%v,end=%s,releases=%d", len(e.BeginTransfers) > 0, strings.Join(ks, "+"), minInt(len(e.EndTransfers), 3))
	}
}
func (m *C02) Done(w *world.World) {}

// scnPayaddrSwitch: a did:sid owner (with a second cosmos account and eip155 accounts under both chain references
// bound to it) re-points its payment address while orders are in flight; the orders are then refunded from the end
// blocker (give-up after ten examinations), by a cancel and by a terminate. Whatever the registry accepted as a
// payment address is dereferenced by the refund path inside EndBlock.
func scnPayaddrSwitch(ctx *check.JobCtx) {
	w := newLifeWorld(ctx, monitorsFor(ctx.Job.Prop)...)
	a := setupAuthz(w)
	if w.Halted() {
		w.Finish()
		return
	}
	r := w.Rng
	sid := a.sowner.Id.(*actors.SidDid)
	second := w.Acct("pay-revoked")
	ts := uint64(chain.BlockTime(w.H()).Unix())
	w.BindSid(a.sowner.Pay, second, sid, ts, nil)
	var eths []string
	for i, pref := range []string{"eip155:1:", "eip155:" + chain.ChainID + ":"} {
		ethPrefix = pref
		p, accId := ethProof(fmt.Sprintf("pa%d", i), sid.DID(), ts, actors.BindingMessage(sid.DID(), ts), false)
		m := &didtypes.MsgBinding{Creator: a.sowner.Pay.Addr.String(), AccountId: accId, RootDocId: sid.RootDoc, Keys: sid.Versions[0].Keys,
			AccountAuth: &didtypes.AccountAuth{AccountDid: fmt.Sprintf("did:key:ethacc%d", i), AccountEncryptedSeed: "s", SidEncryptedAccount: "a"}, Proof: p}
		if e := w.Deliver("did-binding", a.sowner.Pay, nil, m); e.OK {
			eths = append(eths, accId)
		}
	}
	ethPrefix = "eip155:1:"
	w.EndBlock()
	targets := append([]string{second.AccountID(), a.sowner.Pay.AccountID()}, eths...)
	rounds := int(ctx.ArgInt("rounds", 3))
	for k := 0; k < rounds && !w.Halted(); k++ {
		// silent providers: the order can only be given up by the end blocker
		did := w.NewDataId()
		timeout := int32(10 + r.Intn(10))
		_, o1 := w.Store(world.StoreReq{Owner: a.sowner.Id, Gateway: a.gw, DataId: did, CommitId: did, Duration: 3600, Replica: int32(1 + r.Intn(2)), Timeout: timeout, Size: 1000})
		did2 := w.NewDataId()
		_, o2 := w.Store(world.StoreReq{Owner: a.sowner.Id, Gateway: a.gw, DataId: did2, CommitId: did2, Duration: 3600, Replica: 1, Timeout: 400, Size: 1000})
		done := a.newModel(a.sowner, 1)
		w.EndBlock()
		tg := targets[(k+int(ctx.Job.Seed%4+4))%len(targets)]
		e := w.Deliver("did-payaddr", a.sowner.Pay, nil, &didtypes.MsgUpdatePaymentAddress{Creator: a.sowner.Pay.Addr.String(), AccountId: tg, Did: sid.DID()})
		w.Case("c02:payaddr-switch:target=%s,accepted=%v", strings.SplitN(tg, ":", 3)[0]+":"+strings.SplitN(tg, ":", 3)[1], e.OK)
		w.EndBlock()
		if o2 != 0 {
			w.Cancel(a.gw.Acct, o2, a.gw.Acct.Addr.String())
		}
		if done != "" {
			w.Terminate(a.sowner.Id, nil, a.gw.Acct, "", done, nil)
		}
		w.EndBlock()
		// a new store charged to whatever the payment address is now
		did3 := w.NewDataId()
		if _, o3 := w.Store(world.StoreReq{Owner: a.sowner.Id, Gateway: a.gw, DataId: did3, CommitId: did3, Duration: 3600, Replica: 1, Timeout: 30, Size: 1000}); o3 != 0 && r.Intn(2) == 0 {
			w.CompleteAll(o3)
		}
		if o1 != 0 {
			w.Advance(int64(timeout)*11 + 5)
		}
	}
	w.Advance(400)
	w.Sample("payment-address switch with orders in flight: %s", traceSummary(w))
	w.Finish()
}

// scnLonePledge: the network's only provider adds and withdraws capacity in amounts that are no multiples of the
// pricing unit, down to (almost) nothing, with block rewards flowing: the begin blocker divides by the pool totals.
func scnLonePledge(ctx *check.JobCtx) {
	w := newLifeWorld(ctx, monitorsFor(ctx.Job.Prop)...)
	w.BeginStates = true
	r := w.Rng
	np := chain.DefaultNodeParams()
	np.BlockReward = sdk.NewInt64Coin(chain.Denom, 1000)
	np.Baseline = sdk.NewInt64Coin(chain.Denom, 1) // one pledged coin already earns the full reward
	np.HalvingPeriod = 2000
	np.AdjustmentPeriod = 100
	np.OfflineTriggerHeight = 1_000_000
	sp := w.Acct("lone")
	gen := w.StandardGenesis(np, []*actors.Account{sp}, 1_000_000_000, nil)
	if err := w.Init(gen, 1); err != nil {
		w.Finish()
		return
	}
	w.CreateNode(sp)
	w.ResetNode(sp, world.StatusAll, nil, "")
	w.EndBlock()
	plans := [][]uint64{
		{3_000_000, 1_500_000, 1_500_000},
		{2_000_000, 1_000_001, 999_999},
		{5_000_000, 2_500_000, 2_500_000},
		{4_000_000, 1_333_334, 1_333_333, 1_333_333},
		{1_000_000, 1, 999_999},
		{2_500_000, 1_250_000, 1_250_000},
		{1, 1},
		{6_000_000, 5_999_999, 1},
	}
	rounds := int(ctx.ArgInt("rounds", 6))
	for k := 0; k < rounds && !w.Halted(); k++ {
		plan := plans[(k+int(ctx.Job.Seed%8+8))%len(plans)]
		w.AddVstorage(sp, plan[0])
		w.EndBlock()
		w.Advance(int64(1 + r.Intn(5)))
		for _, rm := range plan[1:] {
			e := w.RemoveVstorage(sp, rm)
			w.Case("c02:lone-pledge:add=%d,remove=%d,ok=%v", plan[0], rm, e.OK)
			w.EndBlock()
			w.Advance(int64(1 + r.Intn(4)))
		}
		w.Claim(sp)
		w.EndBlock()
		// whatever capacity is left is withdrawn before the next plan: all of the pledge has to come back
		withdrawAllProbe(w, sp)
		w.Advance(3)
	}
	w.Sample("lone provider capacity plans: %s", traceSummary(w))
	w.Finish()
}
