package props

import (
	"fmt"
	"sort"

	"saoverif/world"

	saotypes "github.com/SaoNetwork/sao/x/sao/types"
)

// C11: retention and expiry.  A reference timetable is built from the
// *accepted requests* (durations in the signed store / renew proposals as
// submitted by the request factory): a shard completed at height c for an
// order of requested duration D ends at c+D, every accepted renewal of the
// model for R blocks moves the end of each of its stored shards by R, a
// migration hands the end height over to the new shard, termination and
// force-push end the paid term.  At every block boundary the chain's state is
// compared with the timetable.
type C11 struct {
	reqDur  map[uint64]uint64 // order id -> requested duration
	entries map[uint64]*ttEntry
	hadData map[string]bool
	checks  int64
	rel     int64
}

type ttEntry struct {
	shard  uint64
	sp     string
	dataId string
	start  uint64
	end    uint64
	renews int
	moved  bool
}

func NewC11() *C11 {
	return &C11{reqDur: map[uint64]uint64{}, entries: map[uint64]*ttEntry{}, hadData: map[string]bool{}}
}

func (m *C11) ID() string { return "C11" }
func (m *C11) Done(w *world.World) {
	w.Count("c11.existence_checks", m.checks)
	w.Count("c11.releases_observed", m.rel)
	w.Count("c11.entries_open_at_end", int64(len(m.entries)))
}

func (m *C11) Tx(w *world.World, e *world.TxEvent) {
	if !e.OK || e.Pre == nil || e.Post == nil {
		return
	}
	h := uint64(e.Height)
	switch msg := e.Msg.(type) {
	case *saotypes.MsgStore:
		if id, ok := world.NewOrderID(e); ok {
			m.reqDur[id] = msg.Proposal.Duration
		}
	case *saotypes.MsgRenew:
		// renewal orders created by this request
		for id, o := range e.Post.Orders {
			if _, old := e.Pre.Orders[id]; old || o.Operation != 3 {
				continue
			}
			m.reqDur[id] = msg.Proposal.Duration
			for _, sid := range o.Shards {
				if en, ok := m.entries[sid]; ok && en.dataId == o.DataId {
					en.end += msg.Proposal.Duration
					en.renews++
				}
			}
		}
	case *saotypes.MsgTerminate:
		for sid, en := range m.entries {
			if en.dataId == msg.Proposal.DataId {
				delete(m.entries, sid)
				w.Case("c11:ended-by-terminate:renews=%d", en.renews)
			}
		}
	case *saotypes.MsgComplete:
		o, okO := e.Pre.Orders[msg.OrderId]
		if !okO {
			return
		}
		for sid, sh := range e.Post.Shards {
			pre, had := e.Pre.Shards[sid]
			if sh.Status != ShardCompleted || (had && pre.Status == ShardCompleted) {
				continue
			}
			if had && pre.Status == ShardMigrating {
				// hand-over: the new shard takes the end height of the shard it replaces
				var old *ttEntry
				for _, en := range m.entries {
					if en.sp == pre.From && en.dataId == o.DataId {
						if _, still := e.Post.Shards[en.shard]; !still {
							old = en
						}
					}
				}
				if old != nil {
					delete(m.entries, old.shard)
					m.entries[sid] = &ttEntry{shard: sid, sp: sh.Sp, dataId: o.DataId, start: h, end: old.end, renews: old.renews, moved: true}
					w.Case("c11:migrated:renews=%d", old.renews)
				}
				continue
			}
			d, ok := m.reqDur[msg.OrderId]
			if !ok {
				d = o.Duration
			}
			m.entries[sid] = &ttEntry{shard: sid, sp: sh.Sp, dataId: o.DataId, start: h, end: h + d}
			m.hadData[o.DataId] = true
		}
		// force-push: completing the first shard of a force-push order ends the paid term of the version it replaces
		if o.Operation == 2 && o.Status != OrderCompleted {
			if po, ok := e.Post.Orders[msg.OrderId]; ok && po.Status == OrderCompleted {
				for sid, en := range m.entries {
					if en.dataId == o.DataId {
						if _, still := e.Post.Shards[sid]; !still {
							delete(m.entries, sid)
							w.Case("c11:ended-by-forcepush:renews=%d", en.renews)
						}
					}
				}
			}
		}
	}
	m.verify(w, e.Post, h, false, fmt.Sprintf("after tx %s", e.Kind))
}

func (m *C11) Block(w *world.World, e *world.BlockEvent) {
	m.verify(w, e.Post, uint64(e.Height), true, "block boundary")
}

func (m *C11) verify(w *world.World, _ interface{}, h uint64, boundary bool, where string) {
	st := w.Cur
	ids := make([]uint64, 0, len(m.entries))
	for id := range m.entries {
		ids = append(ids, id)
	}
	sort.Slice(ids, func(i, j int) bool { return ids[i] < ids[j] })
	ended := map[string]bool{}
	releasedSp := map[string]bool{}
	for _, id := range ids {
		en := m.entries[id]
		sh, present := st.Shards[id]
		m.checks++
		if h < en.end || (!boundary && h == en.end) {
			// inside the paid term (the release happens in the end-blocker of height end)
			if !present || sh.Status != ShardCompleted || sh.Sp != en.sp {
				w.Violate("C11", "shard-gone-before-paid-term-ended", fmt.Sprintf("%s at height %d: shard %d of data %s (provider %s) was completed at %d and is paid until %d (renewals %d) but is %s", where, h, id, en.dataId, shortAddr(en.sp), en.start, en.end, en.renews, presentStr(present, sh.Status)), nil)
				delete(m.entries, id)
				continue
			}
			if _, ok := st.Metas[en.dataId]; !ok {
				w.Violate("C11", "model-gone-while-paid-shard-remains", fmt.Sprintf("%s at height %d: data model %s has disappeared while shard %d is paid until %d", where, h, en.dataId, id, en.end), nil)
			}
			if pl, ok := st.Pledges[en.sp]; !ok || pl.UsedStorage < int64(sh.Size_) {
				w.Violate("C11", "capacity-not-reserved-for-paid-shard", fmt.Sprintf("%s at height %d: provider %s does not account capacity for shard %d", where, h, shortAddr(en.sp), id), nil)
			}
		} else {
			// the paid term is over: released at exactly this boundary
			if present {
				w.Violate("C11", "shard-not-released-at-end-of-term", fmt.Sprintf("%s at height %d: shard %d of data %s was paid until %d (completed %d, renewals %d) but still exists (status %d, createdAt %d, duration %d, pending renewals %d)", where, h, id, en.dataId, en.end, en.start, en.renews, sh.Status, sh.CreatedAt, sh.Duration, len(sh.RenewInfos)), nil)
			} else {
				m.rel++
				w.Case("c11:released-on-time:renews=%d,moved=%v,term=%d", en.renews, en.moved, bucketTerm(en.end-en.start))
			}
			delete(m.entries, id)
			ended[en.dataId] = true
			releasedSp[en.sp] = true
		}
	}
	if !boundary {
		return
	}
	// "the provider's capacity and collateral are returned": a provider whose last shard was just released
	// accounts no used capacity and no shard collateral any more
	for sp := range releasedSp {
		holds := false
		for _, sh := range st.Shards {
			if sh.Sp == sp {
				holds = true
			}
		}
		if pl, ok := st.Pledges[sp]; ok && !holds {
			m.checks++
			if pl.UsedStorage != 0 || pl.TotalShardPledged.Amount.IsPositive() {
				w.Violate("C11", "capacity-or-collateral-kept-after-last-release", fmt.Sprintf("height %d: provider %s holds no shard any more but still accounts %d used bytes and %s shard collateral", h, shortAddr(sp), pl.UsedStorage, pl.TotalShardPledged), nil)
			}
		}
	}
	// when a model's last shard has gone, the orders and the model disappear too
	for d := range ended {
		left := false
		for _, en := range m.entries {
			if en.dataId == d {
				left = true
			}
		}
		if left {
			continue
		}
		inflight := false
		var remaining []uint64
		for _, o := range sortedOrders(st) {
			if o.DataId != d {
				continue
			}
			if o.Status != OrderCompleted {
				inflight = true
			}
			for _, sid := range o.Shards {
				if sh, ok := st.Shards[sid]; ok && (sh.Status == ShardCompleted || sh.Status == ShardWaiting || sh.Status == ShardMigrating) {
					inflight = true // a shard still running / in progress (e.g. a replacement completed later)
				}
			}
			remaining = append(remaining, o.Id)
		}
		if inflight {
			continue
		}
		if _, ok := st.Metas[d]; ok {
			w.Violate("C11", "model-remains-after-last-shard", fmt.Sprintf("height %d: the last paid shard of data model %s has been released but the model still exists", h, d), nil)
		}
		if len(remaining) > 0 {
			w.Violate("C11", "order-remains-after-last-shard", fmt.Sprintf("height %d: the last paid shard of data model %s has been released but orders %v still exist", h, d, remaining), nil)
		}
	}
}

func presentStr(p bool, status int32) string {
	if !p {
		return "missing"
	}
	return fmt.Sprintf("present with status %d / other provider", status)
}

func bucketTerm(t uint64) int {
	switch {
	case t <= 3700:
		return 3700
	case t <= 5200:
		return 5200
	case t <= 9000:
		return 9000
	default:
		return 99999
	}
}
