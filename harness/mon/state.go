// Package mon contains the observers: state snapshots read through the
// keepers' own getters over the (in-block or committed) store, the event
// ledger, and the per-property monitors.
package mon

import (
	"crypto/sha256"
	"encoding/hex"
	"fmt"
	"sort"

	"saoverif/chain"

	didtypes "github.com/SaoNetwork/sao/x/did/types"
	markettypes "github.com/SaoNetwork/sao/x/market/types"
	modeltypes "github.com/SaoNetwork/sao/x/model/types"
	nodetypes "github.com/SaoNetwork/sao/x/node/types"
	ordertypes "github.com/SaoNetwork/sao/x/order/types"
	sdk "github.com/cosmos/cosmos-sdk/types"
	authtypes "github.com/cosmos/cosmos-sdk/x/auth/types"
)

// Module escrow accounts of the storage modules.
// (rendered in init, after the bech32 prefix is configured: sdk caches address strings)
var AddrOrder, AddrMarket, AddrNode, AddrDid, AddrModel, AddrSao string

// ModuleAddrs maps a bech32 address of a storage-module account to its name.
var ModuleAddrs = map[string]string{}

func init() {
	// bech32 prefix must be configured before the addresses are rendered
	chain.Encoding()
	AddrOrder = authtypes.NewModuleAddress(ordertypes.ModuleName).String()
	AddrMarket = authtypes.NewModuleAddress(markettypes.ModuleName).String()
	AddrNode = authtypes.NewModuleAddress(nodetypes.ModuleName).String()
	AddrDid = authtypes.NewModuleAddress(didtypes.ModuleName).String()
	AddrModel = authtypes.NewModuleAddress(modeltypes.ModuleName).String()
	AddrSao = authtypes.NewModuleAddress("sao").String()
	ModuleAddrs[AddrOrder] = "order"
	ModuleAddrs[AddrMarket] = "market"
	ModuleAddrs[AddrNode] = "node"
	ModuleAddrs[AddrDid] = "did"
	ModuleAddrs[AddrModel] = "model"
	ModuleAddrs[AddrSao] = "sao"
}

// State is a snapshot of everything the storage modules serve.
type State struct {
	Height     int64
	Orders     map[uint64]ordertypes.Order
	Shards     map[uint64]ordertypes.Shard
	OrderCount uint64
	ShardCount uint64
	Metas      map[string]modeltypes.Metadata
	Models     map[string]string   // key -> dataId
	ExpData    map[uint64][]string // height -> dataIds
	Timeouts   map[uint64][]uint64 // height -> order ids
	ExpShards  map[uint64][]uint64 // height -> shard ids
	Nodes      map[string]nodetypes.Node
	Pledges    map[string]nodetypes.Pledge
	Debts      map[string]sdk.Int
	Pool       nodetypes.Pool
	PoolFound  bool
	Workers    map[string]markettypes.Worker // keyed by provider address
	Bal        map[string]sdk.Int            // all accounts holding the denom
	PayAddr    map[string]string             // did -> payment address
	DidBal     map[string]sdk.Int            // did -> balance held by the did module
	DidOf      map[string]string             // account id -> did it is bound to
	Supply     sdk.Int
}

// Snapshot reads the state visible at c.Ctx().
func Snapshot(c *chain.Chain) *State {
	ctx := c.Ctx()
	a := c.App
	s := &State{Height: ctx.BlockHeight(),
		Orders: map[uint64]ordertypes.Order{}, Shards: map[uint64]ordertypes.Shard{},
		Metas: map[string]modeltypes.Metadata{}, Models: map[string]string{},
		ExpData: map[uint64][]string{}, Timeouts: map[uint64][]uint64{}, ExpShards: map[uint64][]uint64{},
		Nodes: map[string]nodetypes.Node{}, Pledges: map[string]nodetypes.Pledge{}, Debts: map[string]sdk.Int{},
		Workers: map[string]markettypes.Worker{}, Bal: map[string]sdk.Int{}, PayAddr: map[string]string{}, DidBal: map[string]sdk.Int{}, DidOf: map[string]string{}}
	for _, o := range a.OrderKeeper.GetAllOrder(ctx) {
		s.Orders[o.Id] = o
	}
	for _, sh := range a.OrderKeeper.GetAllShard(ctx) {
		s.Shards[sh.Id] = sh
	}
	s.OrderCount = a.OrderKeeper.GetOrderCount(ctx)
	s.ShardCount = a.OrderKeeper.GetShardCount(ctx)
	for _, m := range a.ModelKeeper.GetAllMetadata(ctx) {
		s.Metas[m.DataId] = m
	}
	for _, m := range a.ModelKeeper.GetAllModel(ctx) {
		s.Models[m.Key] = m.Data
	}
	for _, e := range a.ModelKeeper.GetAllExpiredData(ctx) {
		s.ExpData[e.Height] = e.Data
	}
	for _, t := range a.SaoKeeper.GetAllTimeoutOrder(ctx) {
		s.Timeouts[t.Height] = t.OrderList
	}
	for _, e := range a.SaoKeeper.GetAllExpiredShard(ctx) {
		s.ExpShards[e.Height] = e.ShardList
	}
	for _, n := range a.NodeKeeper.GetAllNode(ctx) {
		s.Nodes[n.Creator] = n
	}
	for _, p := range a.NodeKeeper.GetAllPledge(ctx) {
		s.Pledges[p.Creator] = p
	}
	for _, d := range a.NodeKeeper.GetAllPledgeDebt(ctx) {
		s.Debts[d.Sp] = d.Debt.Amount
	}
	s.Pool, s.PoolFound = a.NodeKeeper.GetPool(ctx)
	for _, w := range a.MarketKeeper.GetAllWorker(ctx) {
		name := w.Workername
		if len(name) > len(chain.Denom)+1 {
			name = name[len(chain.Denom)+1:]
		}
		s.Workers[name] = w
	}
	a.BankKeeper.IterateAllBalances(ctx, func(addr sdk.AccAddress, c sdk.Coin) bool {
		if c.Denom == chain.Denom {
			s.Bal[addr.String()] = c.Amount
		}
		return false
	})
	s.Supply = a.BankKeeper.GetSupply(ctx, chain.Denom).Amount
	for _, pa := range a.DidKeeper.GetAllPaymentAddress(ctx) {
		s.PayAddr[pa.Did] = pa.Address
	}
	for _, d := range a.DidKeeper.GetAllDid(ctx) {
		s.DidOf[d.AccountId] = d.Did
	}
	for _, db := range a.DidKeeper.GetAllDidBalances(ctx) {
		s.DidBal[db.Did] = db.Balance.Amount
	}
	return s
}

// BalOf returns the balance (zero when absent).
func (s *State) BalOf(addr string) sdk.Int {
	if v, ok := s.Bal[addr]; ok {
		return v
	}
	return sdk.ZeroInt()
}

// Hash is a canonical digest of the storage-module part of the state.
func (s *State) Hash() string {
	h := sha256.New()
	w := func(f string, a ...interface{}) { fmt.Fprintf(h, f, a...) }
	oids := make([]uint64, 0, len(s.Orders))
	for id := range s.Orders {
		oids = append(oids, id)
	}
	sort.Slice(oids, func(i, j int) bool { return oids[i] < oids[j] })
	for _, id := range oids {
		o := s.Orders[id]
		w("o%d:%d:%d:%v:%s;", id, o.Status, o.Replica, o.Shards, o.Amount.Amount)
	}
	sids := make([]uint64, 0, len(s.Shards))
	for id := range s.Shards {
		sids = append(sids, id)
	}
	sort.Slice(sids, func(i, j int) bool { return sids[i] < sids[j] })
	for _, id := range sids {
		x := s.Shards[id]
		w("s%d:%d:%d:%s:%d:%d:%d;", id, x.OrderId, x.Status, x.Sp, x.CreatedAt, x.Duration, len(x.RenewInfos))
	}
	mk := make([]string, 0, len(s.Metas))
	for k := range s.Metas {
		mk = append(mk, k)
	}
	sort.Strings(mk)
	for _, k := range mk {
		m := s.Metas[k]
		w("m%s:%d:%s:%v:%d:%d;", k, m.Status, m.Commit, m.Orders, m.Duration, m.OrderId)
	}
	pk := make([]string, 0, len(s.Pledges))
	for k := range s.Pledges {
		pk = append(pk, k)
	}
	sort.Strings(pk)
	for _, k := range pk {
		p := s.Pledges[k]
		w("p%s:%d:%d:%s:%s;", k, p.TotalStorage, p.UsedStorage, p.TotalStoragePledged.Amount, p.TotalShardPledged.Amount)
	}
	nk := make([]string, 0, len(s.Nodes))
	for k := range s.Nodes {
		nk = append(nk, k)
	}
	sort.Strings(nk)
	for _, k := range nk {
		n := s.Nodes[k]
		w("n%s:%d:%d;", k, n.Status, n.Role)
	}
	return hex.EncodeToString(h.Sum(nil)[:12])
}

// RawStores dumps every key/value pair of the named stores at c.Ctx().
func RawStores(c *chain.Chain, names ...string) map[string]map[string]string {
	ctx := c.Ctx()
	out := map[string]map[string]string{}
	for _, n := range names {
		key := c.App.GetKey(n)
		m := map[string]string{}
		if key != nil {
			it := ctx.KVStore(key).Iterator(nil, nil)
			for ; it.Valid(); it.Next() {
				m[string(it.Key())] = string(it.Value())
			}
			it.Close()
		}
		out[n] = m
	}
	return out
}
