package mon

import (
	"strings"

	sdk "github.com/cosmos/cosmos-sdk/types"
	abci "github.com/tendermint/tendermint/abci/types"
)

// Transfer is one bank movement parsed from emitted events.
type Transfer struct {
	From, To string // "" for mint (From) / burn (To)
	Amount   sdk.Int
	Seq      int // position of the event in its response
}

// Marker is a non-bank event of interest (order/shard lifecycle).
type Marker struct {
	Type  string
	Attrs map[string]string
	Seq   int
}

// ParseEvents extracts the transfers (single denomination) and all other events in order.
func ParseEvents(evs []abci.Event, denom string) (trs []Transfer, marks []Marker) {
	for i, e := range evs {
		at := map[string]string{}
		for _, a := range e.Attributes {
			at[string(a.Key)] = string(a.Value)
		}
		switch e.Type {
		case "transfer":
			trs = append(trs, Transfer{From: at["sender"], To: at["recipient"], Amount: amountOf(at["amount"], denom), Seq: i})
		case "coinbase":
			trs = append(trs, Transfer{From: "", To: at["minter"], Amount: amountOf(at["amount"], denom), Seq: i})
		case "burn":
			trs = append(trs, Transfer{From: at["burner"], To: "", Amount: amountOf(at["amount"], denom), Seq: i})
		case "coin_spent", "coin_received", "message":
		default:
			marks = append(marks, Marker{Type: e.Type, Attrs: at, Seq: i})
		}
	}
	return
}

func amountOf(s, denom string) sdk.Int {
	total := sdk.ZeroInt()
	for _, part := range strings.Split(s, ",") {
		part = strings.TrimSpace(part)
		if part == "" {
			continue
		}
		c, err := sdk.ParseCoinNormalized(part)
		if err != nil {
			continue
		}
		if c.Denom == denom {
			total = total.Add(c.Amount)
		}
	}
	return total
}

// NetFlows sums transfers into per-address deltas.
func NetFlows(trs []Transfer) map[string]sdk.Int {
	m := map[string]sdk.Int{}
	add := func(a string, v sdk.Int) {
		if a == "" {
			return
		}
		if cur, ok := m[a]; ok {
			m[a] = cur.Add(v)
		} else {
			m[a] = v
		}
	}
	for _, t := range trs {
		add(t.From, t.Amount.Neg())
		add(t.To, t.Amount)
	}
	return m
}
