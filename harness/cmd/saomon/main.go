package main

import (
	"github.com/cosmos/cosmos-sdk/baseapp"
	"fmt"
	"os"
	"time"

	"saoverif/actors"
	"saoverif/chain"
	"saoverif/world"
)

func main() {
	if len(os.Args) < 2 {
		fmt.Println("usage: saomon <cmd>")
		os.Exit(2)
	}
	switch os.Args[1] {
	case "smoke":
		smoke()
	default:
		fmt.Println("unknown command")
		os.Exit(2)
	}
}

func smoke() {
	t0 := time.Now()
	c := chain.New(chain.Options{BaseAppOpts: []func(*baseapp.BaseApp){baseapp.SetTrace(true)}})
	w := world.New(1, c)
	gw := w.Acct("gw")
	sps := []*actors.Account{w.Acct("sp1"), w.Acct("sp2"), w.Acct("sp3")}
	owner := actors.NewKeyDid("alice")
	pay := w.Acct("pay-alice")
	funded := append([]*actors.Account{gw, pay}, sps...)
	gen := w.StandardGenesis(chain.DefaultNodeParams(), funded, 1_000_000_000, nil)
	if err := w.Init(gen, 1); err != nil {
		fmt.Println("init:", err)
		os.Exit(1)
	}
	g := w.SetupProvider(gw, 0)
	for _, s := range sps {
		w.CreateNode(s)
		e := w.AddVstorage(s, 50_000_000)
		fmt.Println("addv", e.OK, e.Res.Log)
		w.ResetNode(s, world.StatusAll, nil, "")
		w.Providers = append(w.Providers, &world.Provider{Acct: s})
	}
	e := w.SetKeyDidPayment(owner, pay)
	fmt.Println("payaddr", e.OK, e.Res.Log)
	w.EndBlock()
	did := w.NewDataId()
	ev, oid := w.Store(world.StoreReq{Owner: owner, Gateway: g, DataId: did, CommitId: did, Duration: 3600, Replica: 2, Timeout: 100, Size: 1000000})
	fmt.Println("store", ev.OK, oid, ev.Res.Log, ev.Res.GasUsed)
	w.EndBlock()
	fmt.Println("completed", w.CompleteAll(oid))
	w.EndBlock()
	fmt.Println("orders", len(w.Cur.Orders), "shards", len(w.Cur.Shards), "metas", len(w.Cur.Metas))
	w.Advance(3700)
	fmt.Println("after: orders", len(w.Cur.Orders), "shards", len(w.Cur.Shards), "metas", len(w.Cur.Metas), "halt", w.Halt)
	fmt.Println("height", c.Height, "elapsed", time.Since(t0), "trace", w.Trace)
}
