package main

import (
	"encoding/json"
	"flag"
	"fmt"
	"os"
	"sort"
	"strconv"

	"saoverif/check"
	"saoverif/replica"
	_ "saoverif/props"
)

func main() {
	if len(os.Args) < 2 {
		usage()
	}
	switch os.Args[1] {
	case "job":
		// saomon job '<json>' <out>
		var job check.Job
		if err := json.Unmarshal([]byte(os.Args[2]), &job); err != nil {
			fmt.Println("bad job:", err)
			os.Exit(2)
		}
		out := "-"
		if len(os.Args) > 3 {
			out = os.Args[3]
		}
		check.RunJob(job, out)
	case "replica-child":
		var o replica.ChildOpts
		if err := json.Unmarshal([]byte(os.Args[2]), &o); err != nil {
			fmt.Println("bad opts:", err)
			os.Exit(2)
		}
		replica.RunChild(o)
	case "check":
		fs := flag.NewFlagSet("check", flag.ExitOnError)
		tier := fs.String("tier", envOr("VERIF_TIER", "quick"), "quick|thorough")
		seed := fs.Int64("seed", envInt("VERIF_SEED", 1), "seed")
		par := fs.Int("par", 14, "parallel jobs")
		fs.Parse(os.Args[3:])
		os.Exit(check.RunCheck(os.Args[2], *tier, *seed, *par))
	case "replay":
		b, err := os.ReadFile(os.Args[2])
		if err != nil {
			fmt.Println(err)
			os.Exit(2)
		}
		var r struct {
			Job check.Job `json:"job"`
		}
		json.Unmarshal(b, &r)
		check.RunJob(r.Job, "-")
	case "list":
		var ids []string
		for id := range check.Specs() {
			ids = append(ids, id)
		}
		sort.Strings(ids)
		for _, id := range ids {
			fmt.Println(id)
		}
	default:
		usage()
	}
}

func usage() {
	fmt.Println("usage: saomon check <ID> [--tier quick|thorough] [--seed N] | job <json> <out> | replay <file> | list")
	os.Exit(2)
}

func envOr(k, d string) string {
	if v := os.Getenv(k); v != "" {
		return v
	}
	return d
}

func envInt(k string, d int64) int64 {
	if v := os.Getenv(k); v != "" {
		if n, err := strconv.ParseInt(v, 10, 64); err == nil {
			return n
		}
	}
	return d
}
