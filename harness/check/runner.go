// Package check is the orchestration layer: a check of one property is a list
// of jobs (scenario + seed + parameters), each executed in its own child
// process under a panic guard, a CPU-time hang watchdog and a generous
// wall-clock watchdog.  The parent merges the observations, applies the
// known-findings discipline, writes the evidence file and decides the verdict.
package check

import (
	"crypto/sha256"
	"encoding/hex"
	"encoding/json"
	"fmt"
	"os"
	"os/exec"
	"path/filepath"
	"runtime/debug"
	"sort"
	"strings"
	"sync"
	"time"

	"saoverif/chain"
	"saoverif/world"
)

// Job is one scenario execution.
type Job struct {
	Prop     string            `json:"prop"`
	Scenario string            `json:"scenario"`
	Seed     int64             `json:"seed"`
	Args     map[string]string `json:"args,omitempty"`
}

func (j Job) ID() string {
	b, _ := json.Marshal(j)
	h := sha256.Sum256(b)
	return hex.EncodeToString(h[:6])
}

// Result is what a job process reports.
type Result struct {
	Job         Job               `json:"job"`
	Violations  []world.Violation `json:"violations"`
	Halt        *chain.Halt       `json:"halt,omitempty"`
	Counters    map[string]int64  `json:"counters"`
	Cases       map[string]int    `json:"cases"`
	Samples     []string          `json:"samples"`
	TraceHash   string            `json:"trace_hash"`
	TraceLen    int               `json:"trace_len"`
	States      int               `json:"states"`
	Blocks      int64             `json:"blocks"`
	WallS       float64           `json:"wall_s"`
	MaxCallCPU  float64           `json:"max_call_cpu_s"`
	Inconclusive string           `json:"inconclusive,omitempty"`
	HarnessPanic string           `json:"harness_panic,omitempty"`
}

// ScenarioFunc runs a scenario to completion inside the job process.
type ScenarioFunc func(ctx *JobCtx)

// JobCtx is handed to scenarios.
type JobCtx struct {
	Job Job
	W   *world.World
	Res *Result
	// extra per-job outputs merged into Result
	Extra map[string]interface{}
}

func (c *JobCtx) Arg(name, def string) string {
	if v, ok := c.Job.Args[name]; ok {
		return v
	}
	return def
}

func (c *JobCtx) ArgInt(name string, def int64) int64 {
	if v, ok := c.Job.Args[name]; ok {
		var n int64
		fmt.Sscan(v, &n)
		return n
	}
	return def
}

var scenarios = map[string]ScenarioFunc{}

// Register makes a scenario available to jobs ("<prop>/<name>").
func Register(name string, f ScenarioFunc) { scenarios[name] = f }

// Spec describes the check of one property.
type Spec struct {
	Prop  string
	Level string // exploration | fault_enumeration
	Rule  string
	Jobs  func(tier string, seed int64) []Job
	// MinCases: the run is inconclusive when fewer distinct non-trivial cases were observed.
	MinCases    map[string]int // per tier
	Assumptions []string
	// Post lets a check add cross-job verdicts (e.g. replica comparison) — optional.
	Post func(tier string, seed int64, results []*Result, ev *Evidence) []world.Violation
}

var specs = map[string]*Spec{}

func RegisterSpec(s *Spec) { specs[s.Prop] = s }

func Specs() map[string]*Spec { return specs }

// hangBudget: one ABCI call that burns more CPU than this is declared non-terminating.
// The largest terminating call observed in any workload is well under a second.
const hangBudget = 60 * time.Second

var curWorld *world.World

// SetWorld registers the world whose chain the hang watchdog observes.
func SetWorld(w *world.World) { curWorld = w }

// RunJob executes a job in this process and writes the result file.
func RunJob(job Job, out string) {
	f, ok := scenarios[job.Scenario]
	res := &Result{Job: job, Counters: map[string]int64{}, Cases: map[string]int{}}
	if !ok {
		res.Inconclusive = "unknown scenario " + job.Scenario
		writeResult(out, res)
		return
	}
	t0 := time.Now()
	ctx := &JobCtx{Job: job, Res: res, Extra: map[string]interface{}{}}
	var mu sync.Mutex
	done := make(chan struct{})
	// CPU-time hang watchdog
	go func() {
		tk := time.NewTicker(500 * time.Millisecond)
		defer tk.Stop()
		for {
			select {
			case <-done:
				return
			case <-tk.C:
				w := curWorld
				if w == nil || w.C == nil {
					continue
				}
				name, cpu := w.C.CurrentCall()
				if name != "" && cpu > hangBudget {
					mu.Lock()
					res.Halt = &chain.Halt{Call: name, Height: w.C.Header.Height, Kind: "hang", Msg: fmt.Sprintf("call still running after %.0f CPU-seconds", cpu.Seconds())}
					collect(ctx, res, t0)
					writeResult(out, res)
					os.Exit(0)
				}
			}
		}
	}()
	func() {
		defer func() {
			if r := recover(); r != nil {
				res.HarnessPanic = fmt.Sprintf("%v\n%s", r, debug.Stack())
			}
		}()
		f(ctx)
	}()
	close(done)
	mu.Lock()
	collect(ctx, res, t0)
	writeResult(out, res)
}

func collect(ctx *JobCtx, res *Result, t0 time.Time) {
	w := ctx.W
	if w == nil {
		w = curWorld
	}
	if w != nil {
		res.Violations = w.Viol
		if res.Halt == nil {
			res.Halt = w.Halt
		}
		for k, v := range w.Counters {
			res.Counters[k] += v
		}
		for k, v := range w.Cases {
			res.Cases[k] += v
		}
		res.Samples = w.Samples
		h := sha256.Sum256([]byte(strings.Join(w.Trace, "\n")))
		res.TraceHash = hex.EncodeToString(h[:8])
		res.TraceLen = len(w.Trace)
		res.States = len(w.StateSet)
		res.Blocks = w.Counters["blocks"]
		if w.C != nil {
			res.MaxCallCPU = w.C.MaxCallCPU.Seconds()
			res.Counters["abci_calls"] = w.C.NCalls
			res.Counters["tx_panics_recovered"] = w.C.TxPanics
		}
	}
	res.WallS = time.Since(t0).Seconds()
}

func writeResult(out string, res *Result) {
	b, _ := json.MarshalIndent(res, "", " ")
	if out == "" || out == "-" {
		os.Stdout.Write(b)
		return
	}
	tmp := out + ".tmp"
	os.WriteFile(tmp, b, 0o644)
	os.Rename(tmp, out)
}

// ---------------------------------------------------------------- parent side

// Finding is an entry of /verif/known_findings.json.
type Finding struct {
	Property string `json:"property"`
	Key      string `json:"key"`
	What     string `json:"what"`
	Status   string `json:"status"` // known | fixed
	Commit   string `json:"commit,omitempty"`
}

func loadFindings() []Finding {
	b, err := os.ReadFile("/verif/known_findings.json")
	if err != nil {
		return nil
	}
	var fs []Finding
	if err := json.Unmarshal(b, &fs); err != nil {
		fmt.Fprintln(os.Stderr, "known_findings.json unreadable:", err)
		os.Exit(3)
	}
	return fs
}

// Evidence mirrors EVIDENCE.schema.json.
type Evidence struct {
	PropertyID  string                 `json:"property_id"`
	Tier        string                 `json:"tier"`
	Seed        int64                  `json:"seed"`
	Level       string                 `json:"level"`
	Coverage    map[string]interface{} `json:"coverage"`
	Assumptions []string               `json:"assumptions"`
	WallS       float64                `json:"wall_s"`
	Violations  int                    `json:"violations"`
}

// RunCheck runs all jobs of a property and returns the process exit code.
func RunCheck(prop, tier string, seed int64, par int) int {
	spec, ok := specs[prop]
	if !ok {
		fmt.Println("no such check", prop)
		return 3
	}
	t0 := time.Now()
	jobs := spec.Jobs(tier, seed)
	work, err := os.MkdirTemp("", "saomon-"+prop+"-")
	if err != nil {
		fmt.Println(err)
		return 3
	}
	defer os.RemoveAll(work)
	results := make([]*Result, len(jobs))
	if par <= 0 {
		par = 14
	}
	sem := make(chan struct{}, par)
	var wg sync.WaitGroup
	exe, _ := os.Executable()
	for i := range jobs {
		wg.Add(1)
		go func(i int) {
			defer wg.Done()
			sem <- struct{}{}
			defer func() { <-sem }()
			results[i] = runChild(exe, jobs[i], filepath.Join(work, fmt.Sprintf("job%04d", i)), tier)
		}(i)
	}
	wg.Wait()

	ev := &Evidence{PropertyID: prop, Tier: tier, Seed: seed, Level: spec.Level, Coverage: map[string]interface{}{}, Assumptions: spec.Assumptions}
	var viols []world.Violation
	violJob := map[string]Job{}
	counters := map[string]int64{}
	cases := map[string]int{}
	traces := map[string]struct{}{}
	var samples []interface{}
	var inconclusive []string
	states := 0
	maxCPU := 0.0
	for _, r := range results {
		if r.Inconclusive != "" {
			inconclusive = append(inconclusive, r.Job.Scenario+": "+r.Inconclusive)
		}
		if r.HarnessPanic != "" {
			inconclusive = append(inconclusive, r.Job.Scenario+": harness panic: "+firstLine(r.HarnessPanic))
			fmt.Fprintln(os.Stderr, "HARNESS PANIC in", r.Job, "\n", r.HarnessPanic)
		}
		for _, v := range r.Violations {
			if v.Prop != prop {
				continue // a monitor of another property riding along: not this check's verdict
			}
			if _, seen := violJob[v.Key]; !seen {
				violJob[v.Key] = r.Job
				viols = append(viols, v)
			}
		}
		if r.Halt != nil && prop == "C02" {
			// forwarded below by the C02 spec's own monitor; nothing here
		}
		for k, v := range r.Counters {
			counters[k] += v
		}
		for k, v := range r.Cases {
			cases[k] += v
		}
		if r.TraceLen > 0 {
			traces[r.TraceHash] = struct{}{}
		}
		states += r.States
		if r.MaxCallCPU > maxCPU {
			maxCPU = r.MaxCallCPU
		}
		for i, s := range r.Samples {
			if i < 3 && len(samples) < 24 {
				samples = append(samples, map[string]interface{}{"scenario": r.Job.Scenario, "seed": r.Job.Seed, "case": s})
			}
		}
	}
	if spec.Post != nil {
		for _, v := range spec.Post(tier, seed, results, ev) {
			if _, seen := violJob[v.Key]; !seen {
				violJob[v.Key] = Job{Prop: prop, Scenario: "post", Seed: seed}
				viols = append(viols, v)
			}
		}
	}

	// known findings
	findings := loadFindings()
	code := 0
	nviol := 0
	var knownSeen []string
	sort.Slice(viols, func(i, j int) bool { return viols[i].Key < viols[j].Key })
	for _, v := range viols {
		known := false
		for _, f := range findings {
			if f.Property == prop && f.Status == "known" && f.Key == v.Key {
				known = true
				fmt.Printf("KNOWN-FINDING: property=%s %s [%s]\n", prop, f.What, f.Key)
				knownSeen = append(knownSeen, f.Key)
				break
			}
		}
		if known {
			continue
		}
		nviol++
		path := writeReplay(prop, violJob[v.Key], v)
		fmt.Printf("VIOLATION property=%s replay=%s\n", prop, path)
		fmt.Printf("  key=%s\n  %s\n", v.Key, v.Msg)
		code = 1
	}

	caseKeys := make([]string, 0, len(cases))
	for k := range cases {
		caseKeys = append(caseKeys, k)
	}
	sort.Strings(caseKeys)
	// transactions delivered + blocks executed (each is decided by the monitors) + direct calls / probes counted by scenarios
	evaluations := counters["evaluations"] + counters["tx"] + counters["blocks"]
	ev.Coverage["evaluations"] = evaluations
	ev.Coverage["distinct_nontrivial"] = len(caseKeys)
	ev.Coverage["rule"] = spec.Rule
	if len(samples) == 0 {
		samples = append(samples, "no samples recorded")
	}
	ev.Coverage["samples"] = samples
	ev.Coverage["jobs"] = len(jobs)
	ev.Coverage["distinct_abstract_traces"] = len(traces)
	ev.Coverage["distinct_state_hashes"] = states
	ev.Coverage["counters"] = counters
	if len(caseKeys) > 60 {
		ev.Coverage["case_signatures_head"] = caseKeys[:60]
	} else {
		ev.Coverage["case_signatures"] = caseKeys
	}
	ev.Coverage["max_abci_call_cpu_s"] = maxCPU
	ev.Coverage["known_findings_reproduced"] = knownSeen
	ev.Coverage["inconclusive"] = inconclusive
	ev.WallS = time.Since(t0).Seconds()
	ev.Violations = nviol

	min := spec.MinCases[tier]
	if code == 0 && (len(inconclusive) > 0 || len(caseKeys) < min || len(caseKeys) < 2) {
		fmt.Printf("INCONCLUSIVE property=%s cases=%d (min %d) problems=%v\n", prop, len(caseKeys), min, inconclusive)
		code = 3
	}
	writeEvidence(ev)
	verdict := map[int]string{0: "held", 1: "violated", 3: "inconclusive"}[code]
	fmt.Printf("%s %s tier=%s seed=%d jobs=%d cases=%d evaluations=%d blocks=%d wall=%.1fs\n", prop, verdict, tier, seed, len(jobs), len(caseKeys), evaluations, counters["blocks"], ev.WallS)
	return code
}

func firstLine(s string) string {
	if i := strings.IndexByte(s, '\n'); i >= 0 {
		return s[:i]
	}
	return s
}

func runChild(exe string, job Job, base string, tier string) *Result {
	out := base + ".json"
	jb, _ := json.Marshal(job)
	limit := "3000"
	if tier == "thorough" {
		limit = "9000"
	}
	cmd := exec.Command("timeout", "-s", "QUIT", limit, exe, "job", string(jb), out)
	logf, _ := os.Create(base + ".log")
	cmd.Stdout = logf
	cmd.Stderr = logf
	cmd.Env = append(os.Environ(), "GOTRACEBACK=all")
	err := cmd.Run()
	logf.Close()
	b, rerr := os.ReadFile(out)
	res := &Result{Job: job, Counters: map[string]int64{}, Cases: map[string]int{}}
	if rerr != nil {
		tail := tailFile(base+".log", 4000)
		res.Inconclusive = fmt.Sprintf("job produced no result (err=%v): %s", err, tail)
		return res
	}
	if jerr := json.Unmarshal(b, res); jerr != nil {
		res.Inconclusive = "unreadable result: " + jerr.Error()
	}
	return res
}

func tailFile(p string, n int) string {
	b, err := os.ReadFile(p)
	if err != nil {
		return ""
	}
	if len(b) > n {
		b = b[len(b)-n:]
	}
	return string(b)
}

func writeReplay(prop string, job Job, v world.Violation) string {
	os.MkdirAll("/verif/replays", 0o755)
	h := sha256.Sum256([]byte(v.Key))
	p := fmt.Sprintf("/verif/replays/%s-%s.json", prop, hex.EncodeToString(h[:5]))
	b, _ := json.MarshalIndent(map[string]interface{}{"job": job, "violation": v, "replay": "/verif/bin/saomon replay " + p}, "", " ")
	os.WriteFile(p, b, 0o644)
	return p
}

func writeEvidence(ev *Evidence) {
	dir := "/verif/evidence"
	if d := os.Getenv("SAOMON_EVIDENCE_DIR"); d != "" {
		// dev aid: triage runs against a scratch copy must not overwrite the evidence of /repo
		dir = d
	}
	os.MkdirAll(dir, 0o755)
	b, _ := json.MarshalIndent(ev, "", " ")
	os.WriteFile(dir+"/"+ev.PropertyID+".json", b, 0o644)
}
