// Package actors holds the deterministic population that drives the chain:
// accounts with their keys, did:key and did:sid identities, and the request
// factory that builds and signs every transaction.  The factory knows, by
// construction, who signed which bytes with which key — the authorization
// oracles rely on that knowledge and never re-implement signature checks.
package actors

import (
	"encoding/base64"
	"encoding/hex"
	"encoding/json"
	"fmt"

	"saoverif/chain"

	didtypes "github.com/SaoNetwork/sao/x/did/types"
	saotypes "github.com/SaoNetwork/sao/x/sao/types"
	"github.com/cosmos/cosmos-sdk/client"
	"github.com/cosmos/cosmos-sdk/crypto/keys/secp256k1"
	sdk "github.com/cosmos/cosmos-sdk/types"
	"github.com/cosmos/cosmos-sdk/types/tx/signing"
	authsigning "github.com/cosmos/cosmos-sdk/x/auth/signing"
	"github.com/dvsekhvalnov/jose2go/base64url"
	"github.com/multiformats/go-multibase"
	tmcrypto "github.com/tendermint/tendermint/crypto"
)

// Account is a plain cosmos account.
type Account struct {
	Name string
	Priv *secp256k1.PrivKey
	Addr sdk.AccAddress
}

func NewAccount(name string) *Account {
	p := secp256k1.GenPrivKeyFromSecret([]byte("acct/" + name))
	return &Account{Name: name, Priv: p, Addr: sdk.AccAddress(p.PubKey().Address())}
}

func (a *Account) String() string { return a.Addr.String() }

// AccountID is the CAIP-10 id of the account on this chain.
func (a *Account) AccountID() string { return "cosmos:" + chain.ChainID + ":" + a.Addr.String() }

const DefaultGas = uint64(30_000_000)

// SignTx builds a SIGN_MODE_DIRECT transaction signed by signer with the
// account number and sequence currently in state.
func SignTx(c *chain.Chain, signer *Account, gas uint64, msgs ...sdk.Msg) []byte {
	ctx := c.Ctx()
	acc := c.App.AccountKeeper.GetAccount(ctx, signer.Addr)
	var num, seq uint64
	if acc != nil {
		num, seq = acc.GetAccountNumber(), acc.GetSequence()
	}
	return SignTxWith(chain.Encoding().TxConfig, signer, num, seq, gas, msgs...)
}

// SignTxWith signs with explicit account number / sequence.
func SignTxWith(cfg client.TxConfig, signer *Account, num, seq, gas uint64, msgs ...sdk.Msg) []byte {
	b := cfg.NewTxBuilder()
	if err := b.SetMsgs(msgs...); err != nil {
		panic(err)
	}
	b.SetGasLimit(gas)
	b.SetFeeAmount(sdk.NewCoins())
	mode := cfg.SignModeHandler().DefaultMode()
	sig := signing.SignatureV2{
		PubKey:   signer.Priv.PubKey(),
		Data:     &signing.SingleSignatureData{SignMode: mode},
		Sequence: seq,
	}
	if err := b.SetSignatures(sig); err != nil {
		panic(err)
	}
	sd := authsigning.SignerData{ChainID: chain.ChainID, AccountNumber: num, Sequence: seq, PubKey: signer.Priv.PubKey(), Address: signer.Addr.String()}
	bytesToSign, err := cfg.SignModeHandler().GetSignBytes(mode, sd, b.GetTx())
	if err != nil {
		panic(err)
	}
	s, err := signer.Priv.Sign(bytesToSign)
	if err != nil {
		panic(err)
	}
	sig.Data = &signing.SingleSignatureData{SignMode: mode, Signature: s}
	if err := b.SetSignatures(sig); err != nil {
		panic(err)
	}
	bz, err := cfg.TxEncoder()(b.GetTx())
	if err != nil {
		panic(err)
	}
	return bz
}

// ---------------------------------------------------------------- DIDs

// Identity can sign proposals as a DID.
type Identity interface {
	DID() string
	// Kid is the key id placed in the JWS header.
	Kid() string
	SignKey() *secp256k1.PrivKey
}

// KeyDid is a did:key identity.
type KeyDid struct {
	Name   string
	Secret []byte
	Did    string
	priv   *secp256k1.PrivKey
}

func NewKeyDid(name string) *KeyDid {
	secret := []byte("did/" + name)
	priv := secp256k1.GenPrivKeyFromSecret(secret)
	d := "did:key:" + MultibaseKey(priv.PubKey().Bytes())
	return &KeyDid{Name: name, Secret: secret, Did: d, priv: priv}
}

func (k *KeyDid) DID() string                 { return k.Did }
func (k *KeyDid) Kid() string                 { return k.Did + "#" + k.Did[len("did:key:"):] }
func (k *KeyDid) SignKey() *secp256k1.PrivKey { return k.priv }

// SidDid is a did:sid identity with one or more document versions.
type SidDid struct {
	Name     string
	RootDoc  string
	Versions []SidVersion
	// accounts currently bound (by construction)
	Bound []*Account
}

type SidVersion struct {
	DocId     string
	Keys      []*didtypes.PubKey
	Signing   *secp256k1.PrivKey
	Timestamp uint64
}

func (s *SidDid) DID() string { return "did:sid:" + s.RootDoc }
func (s *SidDid) Latest() SidVersion {
	return s.Versions[len(s.Versions)-1]
}
func (s *SidDid) Kid() string {
	return fmt.Sprintf("did:sid:%s?versionId=%s#signing", s.RootDoc, s.Latest().DocId)
}
func (s *SidDid) SignKey() *secp256k1.PrivKey { return s.Latest().Signing }

// MultibaseKey encodes a secp256k1 public key the way sid documents hold it.
func MultibaseKey(pub []byte) string {
	b := append([]byte{0xe7, 0x01}, pub...)
	s, err := multibase.Encode(multibase.Base58BTC, b)
	if err != nil {
		panic(err)
	}
	return s
}

// CalcDocId mirrors the documented doc-id derivation (sha256 of the JSON key
// map followed by the timestamp).
func CalcDocId(keys []*didtypes.PubKey, ts uint64) string {
	m := map[string]string{}
	for _, k := range keys {
		m[k.Name] = k.Value
	}
	b, _ := json.Marshal(m)
	return hex.EncodeToString(tmcrypto.Sha256([]byte(string(b) + fmt.Sprint(ts))))
}

// NewSidVersion makes a fresh key set.
func NewSidVersion(name string, n int, ts uint64) SidVersion {
	p := secp256k1.GenPrivKeyFromSecret([]byte(fmt.Sprintf("sid/%s/%d", name, n)))
	keys := []*didtypes.PubKey{{Name: "signing", Value: MultibaseKey(p.PubKey().Bytes())}}
	return SidVersion{DocId: CalcDocId(keys, ts), Keys: keys, Signing: p, Timestamp: ts}
}

func NewSidDid(name string, ts uint64) *SidDid {
	v := NewSidVersion(name, 0, ts)
	return &SidDid{Name: name, RootDoc: v.DocId, Versions: []SidVersion{v}}
}

// BindingMessage is the documented text an account signs to accept a DID.
func BindingMessage(did string, ts uint64) string {
	return fmt.Sprintf("Link this account to your did: %s\nTimestamp: %d", did, ts)
}

// CosmosProof makes a binding proof signed by acct for did/ts with an arbitrary message.
func CosmosProof(acct *Account, did string, ts uint64, message string) *didtypes.BindingProof {
	signBytes := signData(acct.Addr.String(), message)
	sig, err := acct.Priv.Sign(signBytes)
	if err != nil {
		panic(err)
	}
	s := "tendermint/PubKeySecp256k1." + base64.StdEncoding.EncodeToString(acct.Priv.PubKey().Bytes()) + "." + base64.StdEncoding.EncodeToString(sig)
	return &didtypes.BindingProof{Version: 1, Message: message, Signature: s, Account: acct.AccountID(), Did: did, Timestamp: ts}
}

func signData(address, message string) []byte {
	enc := base64.StdEncoding.EncodeToString([]byte(message))
	return []byte(`{"account_number":"0","chain_id":"","fee":{"amount":[],"gas":"0"},"memo":"","msgs":[{"type":"sign/MsgSignData","value":{"data":"` + enc + `","signer":"` + address + `"}}],"sequence":"0"}`)
}

// AccountDidFor is the pseudo account-did we store in AccountAuth.
func AccountDidFor(acct *Account, sid *SidDid) string {
	return "did:key:acct-" + acct.Name + "-" + sid.RootDoc[:8]
}

// ---------------------------------------------------------------- JWS

type jwtHeader struct {
	Kid string `json:"kid"`
	Alg string `json:"alg"`
}

// SignJWS signs payload bytes with key, announcing kid.
func SignJWS(key *secp256k1.PrivKey, kid string, payload []byte) saotypes.JwsSignature {
	hb, _ := json.Marshal(jwtHeader{Kid: kid, Alg: "ES256K"})
	prot := base64url.Encode(hb)
	input := prot + "." + base64url.Encode(payload)
	sig, err := key.Sign([]byte(input))
	if err != nil {
		panic(err)
	}
	return saotypes.JwsSignature{Protected: prot, Signature: base64url.Encode(sig)}
}

type marshaler interface{ Marshal() ([]byte, error) }

// SignProposal signs the protobuf bytes of a proposal as id.
func SignProposal(id Identity, p marshaler) saotypes.JwsSignature {
	b, err := p.Marshal()
	if err != nil {
		panic(err)
	}
	return SignJWS(id.SignKey(), id.Kid(), b)
}
