#!/bin/bash
for d in /verif/seeded/C??-s?; do id=$(basename $d); prop=${id%%-*}; echo "##### $id"; /verif/scripts/try_seed.sh $d/patch.diff $prop; done
