#!/bin/bash
# Run once after a fresh restore, offline: generates the clock overlay and
# builds (warms the Go build cache for) the harness binaries.
set -euo pipefail
export GOFLAGS=-mod=mod GOPROXY=off GOSUMDB=off GOTOOLCHAIN=local
mkdir -p /verif/build /verif/bin /verif/evidence
/verif/scripts/mkoverlay.sh
/verif/scripts/build.sh
/verif/scripts/build.sh race
echo setup done
