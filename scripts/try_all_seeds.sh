#!/bin/bash
# dev helper: try every seeded change against the check of its property (and listed extras)
declare -A EXTRA=( [C05-a]="C13" [C07-a]="C14 C06" [C09-a]="C16" [C11-a]="C13" [C02-a]="C12 C15" [C06-a]="C04 C12" [C08-a]="C14" [C13-a]="C11" [C14-a]="C07 C06" [C16-a]="C05" [C18-a]="" [C20-a]="" )
for d in "$@"; do
  id=$(basename $d); prop=${id%%-*}
  echo "##### $id"
  /verif/scripts/try_seed.sh /verif/seeded/$id/patch.diff $prop ${EXTRA[$id]:-}
done
