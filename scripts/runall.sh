#!/bin/bash
# dev helper: run every check's quick (or given tier) command in sequence and summarise
TIER=${1:-quick}
for i in $(seq -w 1 20); do
  ID=C$i
  s=$(date +%s)
  /verif/scripts/check.sh $ID $TIER > /verif/build/run-$ID.out 2>&1
  rc=$?
  e=$(date +%s)
  echo "$ID rc=$rc $((e-s))s $(tail -1 /verif/build/run-$ID.out)"
done
