#!/bin/bash
# Builds the harness binary from /repo's current working tree (module replace
# => /repo), with the verif build tag and the virtual-clock overlay.
#   build.sh          -> /verif/bin/saomon
#   build.sh race     -> /verif/bin/saomon.race (Go race detector)
set -euo pipefail
export GOFLAGS=-mod=mod GOPROXY=off GOSUMDB=off GOTOOLCHAIN=local
mkdir -p /verif/bin /verif/build
exec 9>/verif/build/.build.lock
flock 9
cd /verif/harness
[ -f /verif/build/overlay/overlay.json ] || /verif/scripts/mkoverlay.sh >/dev/null
# keep go.sum in step with the repository's (the harness module mirrors its requirements)
if ! cmp -s /repo/go.sum go.sum; then cp /repo/go.sum go.sum; fi
if [ "${1:-}" = race ]; then
  go build -race -tags verif -overlay /verif/build/overlay/overlay.json -o /verif/bin/saomon.race.tmp ./cmd/saomon && mv /verif/bin/saomon.race.tmp /verif/bin/saomon.race
else
  go build -tags verif -overlay /verif/build/overlay/overlay.json -o /verif/bin/saomon.tmp ./cmd/saomon && mv /verif/bin/saomon.tmp /verif/bin/saomon
fi
