#!/bin/bash
# Builds the harness binary from /repo's current working tree (module replace
# => /repo), with the verif build tag (hooks on) and the virtual-clock overlay.
#   build.sh          -> /verif/bin/saomon
#   build.sh race     -> /verif/bin/saomon.race (Go race detector)
set -euo pipefail
export GOFLAGS=-mod=mod GOPROXY=off GOSUMDB=off GOTOOLCHAIN=local
cd /verif/harness
[ -f /verif/build/overlay/overlay.json ] || /verif/scripts/mkoverlay.sh >/dev/null
mkdir -p /verif/bin
# go.sum / go.mod track the repository's (module name and replace differ)
if ! cmp -s /repo/go.sum go.sum.repo 2>/dev/null; then cp /repo/go.sum go.sum.repo; fi
if [ "${1:-}" = race ]; then
  go build -race -tags verif -overlay /verif/build/overlay/overlay.json -o /verif/bin/saomon.race ./cmd/saomon
else
  go build -tags verif -overlay /verif/build/overlay/overlay.json -o /verif/bin/saomon ./cmd/saomon
fi
