#!/bin/bash
# try_seed.sh <patch.diff> <ID> [ID...]: applies a seeded change to /repo, runs the quick checks, reverts.
set -uo pipefail
P=$1; shift
cd /repo
if [ -n "$(git status --porcelain)" ]; then echo "/repo not clean"; exit 2; fi
git apply "$P" || { echo "patch does not apply"; exit 2; }
for ID in "$@"; do
  /verif/scripts/check.sh $ID ${TIER:-quick} > /verif/build/seed-$ID.out 2>&1
  echo "$ID rc=$? $(grep -c '^VIOLATION' /verif/build/seed-$ID.out) violations; $(grep '  key=' /verif/build/seed-$ID.out | head -4 | tr '\n' ' ')"
done
git checkout -- . 
git status --porcelain | head -3
