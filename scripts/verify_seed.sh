#!/bin/bash
# verify_seed.sh <worktree>: confirms a seeded change independently: builds, existing suite unchanged (47 stable tests),
# demonstration fails with the change and passes without it.  Leaves the worktree with the change applied.
set -uo pipefail
D=$1
export GOFLAGS=-mod=mod GOPROXY=off GOSUMDB=off GOTOOLCHAIN=local
cd $D || exit 2
DEMOS=$(find _seeded -name "*_test.go" -printf "./%h/\n" | sort -u | tr "\n" " ")
echo "demo packages: $DEMOS"
git diff > /tmp/vs-$$.diff
if ! cmp -s /tmp/vs-$$.diff _seeded/patch.diff; then echo "NOTE: patch.diff differs from working tree diff"; diff <(grep '^[+-]' /tmp/vs-$$.diff) <(grep '^[+-]' _seeded/patch.diff) | head -5; fi
echo "== build"; go build ./app/... ./cmd/... ./x/... && echo build-ok
echo "== demo with change"; go test -vet=off -count=1 $DEMOS > /tmp/vs-$$.with 2>&1; echo "rc=$?"; grep -E "^(--- FAIL|FAIL|ok|PASS)" /tmp/vs-$$.with | head -8
echo "== existing suite with change"; go test -json -vet=off -count=1 ./x/... ./app/... 2>/dev/null | python3 -c "
import sys,json
base=set(json.load(open('/root/.vp/BASELINE.json'))['stable_pass'])
res={}
for l in sys.stdin:
    try: e=json.loads(l)
    except: continue
    if e.get('Action') in('pass','fail') and e.get('Test'): res[e['Package']+'::'+e['Test']]=e['Action']
print('stable passing:',sum(1 for t in base if res.get(t)=='pass'),'of',len(base))"
git apply -R _seeded/patch.diff || { echo "cannot revert"; exit 1; }
echo "== demo without change"; go test -vet=off -count=1 $DEMOS > /tmp/vs-$$.without 2>&1; echo "rc=$?"; grep -E "^(--- FAIL|FAIL|ok|PASS)" /tmp/vs-$$.without | head -8
git apply _seeded/patch.diff
rm -f /tmp/vs-$$.*
