#!/bin/bash
# dev helper: run N life jobs with all monitors and summarise violations
N=${1:-10}; BASE=${2:-200}; OUT=${3:-/tmp/r}
mkdir -p $OUT; rm -f $OUT/*.json
profs=(mixed renewheavy timeouts migrate rewards)
for i in $(seq 0 $((N-1))); do prof=${profs[$((i%5))]}; /verif/bin/saomon job "{\"prop\":\"ALL\",\"scenario\":\"life\",\"seed\":$((BASE+i)),\"args\":{\"profile\":\"$prof\",\"allmon\":\"1\"}}" $OUT/$i.json >/dev/null 2>&1 & 
  if (( (i+1) % 14 == 0 )); then wait; fi
done; wait
python3 - $OUT <<'PY'
import json,glob,sys,collections
keys=collections.Counter()
for f in sorted(glob.glob(sys.argv[1]+'/*.json')):
    r=json.load(open(f))
    print(f, r['job']['args']['profile'], 'seed',r['job']['seed'],'blocks',r['blocks'],'wall',round(r['wall_s']),'halt',r.get('halt') and (r['halt']['call'],r['halt']['msg'][:200]),'panic',(r.get('harness_panic') or '')[:800])
    for v in r['violations'] or []:
        keys[v['prop']+' '+v['key']]+=1
        print('   ',v['prop'],v['key'],'@',v['height'],'::',v['msg'][:420])
print(keys)
PY
