#!/bin/bash
# check.sh <property id> <quick|thorough>
# Rebuilds the harness from /repo's current working tree (clock overlay, verif tag) and runs the check.
# exit 0 = held on everything explored; 1 = VIOLATION (line printed); 3 = inconclusive / broken.
set -uo pipefail
ID=$1; TIER=${2:-${VERIF_TIER:-quick}}
export GOFLAGS=-mod=mod GOPROXY=off GOSUMDB=off GOTOOLCHAIN=local
mkdir -p /verif/build /verif/evidence
cd /verif
if ! scripts/build.sh >/verif/build/build-$ID.log 2>&1; then
  echo "build failed (see /verif/build/build-$ID.log)"; tail -20 /verif/build/build-$ID.log; exit 3
fi
if [ "$ID" = C01 ]; then
  if ! scripts/build.sh race >/verif/build/build-$ID-race.log 2>&1; then
    echo "race build failed"; tail -20 /verif/build/build-$ID-race.log; exit 3
  fi
fi
# each check works on its own copy of the binary so that a concurrent rebuild cannot disturb it
BIN=/verif/build/saomon-$ID-$$
cp /verif/bin/saomon $BIN
trap 'rm -f $BIN' EXIT
$BIN check "$ID" --tier "$TIER" --seed "${VERIF_SEED:-1}"
