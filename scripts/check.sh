#!/bin/bash
# check.sh <property id> <quick|thorough>
# Rebuilds the harness from /repo's current working tree (hooks on, clock overlay) and runs the check.
# exit 0 = held on everything explored; 1 = VIOLATION (line printed); 3 = inconclusive / broken.
set -uo pipefail
ID=$1; TIER=${2:-${VERIF_TIER:-quick}}
export GOFLAGS=-mod=mod GOPROXY=off GOSUMDB=off GOTOOLCHAIN=local
cd /verif
if ! scripts/build.sh >/verif/build/build-$ID.log 2>&1; then
  echo "build failed (see /verif/build/build-$ID.log)"; tail -20 /verif/build/build-$ID.log; exit 3
fi
exec /verif/bin/saomon check "$ID" --tier "$TIER" --seed "${VERIF_SEED:-1}"
