#!/bin/bash
# dev aid: try_seed_wt.sh <worktree of /repo with a change applied> <ID> [ID...]
# Builds a throw-away harness binary against the worktree (instead of /repo) and runs the quick
# checks with evidence redirected, so that a sweep running against /repo is not disturbed.
# Triage only: a seeded change is confirmed with try_seed.sh against /repo itself.
set -uo pipefail
WT=$1; shift
export GOFLAGS=-mod=mod GOPROXY=off GOSUMDB=off GOTOOLCHAIN=local
D=/verif/build/wt-$(basename $WT); mkdir -p $D/ev
sed "s#=> /repo#=> $WT#" /verif/harness/go.mod > $D/go.mod; cp $WT/go.sum $D/go.sum
(cd /verif/harness && go build -modfile=$D/go.mod -tags verif -overlay /verif/build/overlay/overlay.json -o $D/saomon ./cmd/saomon) || { echo build failed; exit 3; }
for ID in "$@"; do
  SAOMON_EVIDENCE_DIR=$D/ev $D/saomon check $ID --tier ${TIER:-quick} --seed ${VERIF_SEED:-1} > $D/$ID.out 2>&1
  echo "$ID rc=$? $(grep -c '^VIOLATION' $D/$ID.out) violations; $(grep '  key=' $D/$ID.out | head -4 | tr '\n' ' ')"
done
rm -f $D/saomon
